/* C04: the string operators of the condition language rest on libyara/sizedstr.c:
 *   ==, !=, <, ... -> ss_compare      iequals -> ss_icompare == 0
 *   startswith / istartswith / endswith / iendswith -> ss_[i]startswith / ss_[i]endswith
 * Function contracts on the real functions, enforced with goto-instrument --dfcc; the loops
 * carry in-place loop contracts (YR_VERIF_LOOP in sizedstr.c), so the proof is for strings
 * of ANY length (route U). SSEL selects the function.
 *   SSEL 1 ss_startswith  2 ss_istartswith  3 ss_endswith  4 ss_iendswith
 *        5 ss_compare (result 0 iff equal length and equal bytes; sign from the first
 *          differing byte or from the lengths)   6 ss_icompare (result 0 iff equal
 *          length and bytes equal after case folding -- the only use, iequals)
 * Preconditions: both strings are valid SIZED_STRINGs (length bytes of storage after the
 * header); lengths below 2^30 (YARA strings come from the 8 KiB lexer buffer, module strings
 * from scanned data; the bound keeps the 32-bit index arithmetic of the loops exact).
 */
#include "vharness.h"
#include <string.h>
#include <stdlib.h>
#include <yara/sizedstr.h>
#include <yara/globals.h>

#define V_MAXLEN 0x3fffffffu
/* ghost lengths (set by the harness, unconstrained): the storage of each string is EXACTLY
 * header + length bytes, so any read past the string is an out-of-bounds access for CBMC */
static size_t g_n1, g_n2;
#define SS_OK(s, n) ((n) <= V_MAXLEN && __CPROVER_is_fresh(s, sizeof(SIZED_STRING) + (n)) && (s)->length == (n))
#define LCC(s, k) yr_lowercase[(uint8_t) (s)->c_string[k]]

#if SSEL == 1
#define FN ss_startswith
#define EQ(k) (s1->c_string[k] == s2->c_string[k])
#elif SSEL == 2
#define FN ss_istartswith
#define EQ(k) (LCC(s1, k) == LCC(s2, k))
#elif SSEL == 3
#define FN ss_endswith
#define EQ(k) (s1->c_string[s1->length - s2->length + (k)] == s2->c_string[k])
#elif SSEL == 4
#define FN ss_iendswith
#define EQ(k) (LCC(s1, s1->length - s2->length + (k)) == LCC(s2, k))
#elif SSEL == 5
#define FN ss_compare
#define EQ(k) (s1->c_string[k] == s2->c_string[k])
#else
#define FN ss_icompare
#define EQ(k) (LCC(s1, k) == LCC(s2, k))
#endif

#ifdef VMODE_CONTRACT
#if SSEL <= 4
bool FN(SIZED_STRING* s1, SIZED_STRING* s2)
    /* clang-format off */
__CPROVER_requires(SS_OK(s1, g_n1) && SS_OK(s2, g_n2))
__CPROVER_assigns()
#if VNEG == 1
__CPROVER_ensures(__CPROVER_return_value ==
    (s2->length < s1->length && __CPROVER_forall { size_t k; (k < s2->length) ==> EQ(k) }))
#else
__CPROVER_ensures(__CPROVER_return_value ==
    (s2->length <= s1->length && __CPROVER_forall { size_t k; (k < s2->length) ==> EQ(k) }))
#endif
    /* clang-format on */
    ;
#else
int FN(SIZED_STRING* s1, SIZED_STRING* s2)
    /* clang-format off */
__CPROVER_requires(SS_OK(s1, g_n1) && SS_OK(s2, g_n2))
__CPROVER_assigns()
__CPROVER_ensures(__CPROVER_return_value == 0 || __CPROVER_return_value == 1 || __CPROVER_return_value == -1)
#if VNEG == 1
__CPROVER_ensures((__CPROVER_return_value == 0) ==
    (s1->length <= s2->length && __CPROVER_forall { size_t k; (k < s1->length) ==> EQ(k) }))
#else
__CPROVER_ensures((__CPROVER_return_value == 0) ==
    (s1->length == s2->length && __CPROVER_forall { size_t k; (k < s1->length) ==> EQ(k) }))
#endif
    /* clang-format on */
    ;
#endif

#endif

void* yr_malloc(size_t n) { return malloc(n); }
#include "/repo/libyara/sizedstr.c"

#ifdef VMODE_CONTRACT
void harness(void)
{
  SIZED_STRING *a, *b;
  size_t n1, n2;
  g_n1 = n1; g_n2 = n2;
  FN(a, b);
}
#else
/* plain / native form (bounded witness search when the SMT solver answers "unknown" for a
 * refuted quantified obligation, and native replay): strings of <= SMAX bytes in exact-size
 * heap objects, the same postcondition as an executable predicate */
#ifndef SMAX
#define SMAX 4
#endif
#ifndef VNATIVE
/* the table yr_initialize() builds (the contract form proves the functions for ANY table) */
#define LC(i) ((i) >= 'A' && (i) <= 'Z' ? (i) + 32 : (i))
#define LC4(i) LC(i), LC(i + 1), LC(i + 2), LC(i + 3)
#define LC16(i) LC4(i), LC4(i + 4), LC4(i + 8), LC4(i + 12)
#define LC64(i) LC16(i), LC16(i + 16), LC16(i + 32), LC16(i + 48)
uint8_t yr_lowercase[256] = {LC64(0), LC64(64), LC64(128), LC64(192)};
#endif
void harness(void)
{
  V_IN_ARR(uint8_t, c1, SMAX);
  V_IN_ARR(uint8_t, c2, SMAX);
  V_IN(uint8_t, n1);
  V_IN(uint8_t, n2);
#ifdef VNATIVE
  for (int i = 0; i < 256; i++) yr_lowercase[i] = (i >= 'A' && i <= 'Z') ? i + 32 : i;
#endif
  V_ASSUME(n1 <= SMAX && n2 <= SMAX);
  SIZED_STRING* s1 = malloc(sizeof(SIZED_STRING) + n1);
  SIZED_STRING* s2 = malloc(sizeof(SIZED_STRING) + n2);
  V_ASSUME(s1 != NULL && s2 != NULL);
  s1->length = n1; s2->length = n2; s1->flags = s2->flags = 0;
  for (int i = 0; i < SMAX; i++) { if (i < n1) s1->c_string[i] = (char) c1[i]; if (i < n2) s2->c_string[i] = (char) c2[i]; }
  s1->c_string[n1] = 0; s2->c_string[n2] = 0;
  int all = 1;
#if SSEL <= 4
  bool r = FN(s1, s2);
  if (n2 <= n1) { for (int k = 0; k < SMAX; k++) if (k < n2 && !EQ(k)) all = 0; }
  V_ASSERT(r == (n2 <= n1 && all), "postcondition.return");
#else
  int r = FN(s1, s2);
  for (int k = 0; k < SMAX; k++) if (k < n1 && k < n2 && !EQ(k)) all = 0;
  V_ASSERT(r == 0 || r == 1 || r == -1, "postcondition.range");
  V_ASSERT((r == 0) == (n1 == n2 && all), "postcondition.zero_iff_equal");
#endif
}
#endif
