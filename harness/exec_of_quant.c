/* C04: the "of" quantifiers of the condition language over a rule set, through the real
 * yr_execute_code() (route M: fixed program skeleton, symbolic operands):
 *
 *   INIT_RULE 0 ; PUSH q ; PUSH undefined ; PUSH m_1 ... PUSH m_N ; <OP_OF | OP_OF_PERCENT>
 *   OF_RULE_SET ; MATCH_RULE 0 ; HALT          (m_i in {0,1}: "rule i has matched")
 *
 * Documented semantics (writingrules.rst, "Sets of strings" / "Referencing other rules"):
 *   all of  (q undefined)  : every member satisfied         found == N
 *   none of / 0 of (q == 0): no member satisfied             found == 0
 *   q of                   : at least q members satisfied    found >= q
 *   q% of                  : at least q percent of the members satisfied, i.e.
 *                            found * 100 >= q * N  (exact arithmetic); undefined q -> undefined
 * OFSEL 1 OP_OF, 2 OP_OF_PERCENT.  -DNMEMB=N (swept).  q is any 64-bit value for OP_OF and
 * -1 .. 128 for the percentage (grammar.y admits constants 1..100 only).
 */
#include "vharness.h"
#include "vm_spec.h"

#include "/repo/libyara/exec.c"

/* ---- stubs for other translation units (trusted, listed in evidence) ---- */
static uint32_t cfg_stack_size = 128;
int g_unload_calls;

YR_API int yr_get_configuration_uint32(YR_CONFIG_NAME name, uint32_t* dest)
{
  *dest = cfg_stack_size;
  return ERROR_SUCCESS;
}
int yr_modules_unload_all(YR_SCAN_CONTEXT* context)
{
  g_unload_calls++;
  return ERROR_SUCCESS;
}
uint64_t yr_stopwatch_elapsed_ns(YR_STOPWATCH* sw) { return 0; }

/* resource stubs with ghost live-counters (C10/C16: everything acquired in the
 * prologue is released exactly once on every exit) */
int g_arena_live, g_notebook_live, g_heap_live;
static YR_ARENA dummy_arena;
static int dummy_notebook;
#ifdef VNATIVE
static int nondet_fail(void) { return 0; }
#else
int nondet_fail(void);
#endif
int yr_arena_create(uint32_t n, size_t sz, YR_ARENA** arena)
{
  if (nondet_fail()) return ERROR_INSUFFICIENT_MEMORY;
  g_arena_live++;
  *arena = &dummy_arena;
  return ERROR_SUCCESS;
}
static YR_OBJECT* dummy_objs[4];
void* yr_arena_get_ptr(YR_ARENA* arena, uint32_t buffer_id, yr_arena_off_t offset)
{
  return dummy_objs;
}
int yr_arena_release(YR_ARENA* arena)
{
  g_arena_live--;
  return ERROR_SUCCESS;
}
int yr_notebook_create(size_t page_size, YR_NOTEBOOK** pool)
{
  if (nondet_fail()) return ERROR_INSUFFICIENT_MEMORY;
  g_notebook_live++;
  *pool = (YR_NOTEBOOK*) &dummy_notebook;
  return ERROR_SUCCESS;
}
int yr_notebook_destroy(YR_NOTEBOOK* pool)
{
  g_notebook_live--;
  return ERROR_SUCCESS;
}
void* yr_malloc(size_t size)
{
  void* p = malloc(size);
  if (p != NULL) g_heap_live++;
  return p;
}
void yr_free(void* ptr)
{
  if (ptr != NULL) g_heap_live--;
  free(ptr);
}
static YR_RULE rtab[1];
int yr_arena_ptr_to_ref(YR_ARENA* arena, const void* address, YR_ARENA_REF* ref)
{
  /* the only arena buffer of the harness is the rules table */
  return (const uint8_t*) address >= (const uint8_t*) rtab &&
         (const uint8_t*) address < (const uint8_t*) rtab + sizeof(rtab);
}


#ifndef NMEMB
#define NMEMB 3
#endif

static YR_NAMESPACE ns0;
static YR_ARENA rarena;
static YR_RULES rules;
static YR_SCAN_CONTEXT ctx;
static YR_BITMASK bm_match[1], bm_ns[1], bm_req[1];
static uint8_t code[9 * (NMEMB + 3) + 32];

static size_t emit8(size_t p, uint8_t v) { code[p] = v; return p + 1; }
static size_t emit64(size_t p, uint64_t v) { memcpy(code + p, &v, 8); return p + 8; }
static size_t emit32(size_t p, uint32_t v) { memcpy(code + p, &v, 4); return p + 4; }

void harness(void)
{
  V_IN(int64_t, q);
  V_IN_ARR(uint8_t, m, NMEMB);

  memset(rtab, 0, sizeof rtab);
  rtab[0].ns = &ns0;
  ns0.idx = 0;
  rarena.num_buffers = 1;
  rarena.xrefs = 1;
  rarena.buffers[0].data = (uint8_t*) rtab;
  rarena.buffers[0].size = sizeof rtab;
  rarena.buffers[0].used = sizeof rtab;
  rules.arena = &rarena;
  rules.rules_table = rtab;
  rules.num_rules = 1;
  rules.num_namespaces = 1;
  rules.code_start = code;
  memset(&ctx, 0, sizeof ctx);
  ctx.rules = &rules;
  ctx.rule_matches_flags = bm_match;
  ctx.ns_unsatisfied_flags = bm_ns;
  ctx.required_eval = bm_req;
  bm_match[0] = 0; bm_ns[0] = 0; bm_req[0] = 1;

#if OFSEL == 2
  V_ASSUME(VS_IS_UNDEF(q) || (q >= -1 && q <= 128)); /* constants are 1..100 by grammar.y; wider ranges do not finish (double division) */
#endif
  int found = 0;
  size_t p = 0;
  p = emit8(p, OP_INIT_RULE); p = emit32(p, 0); p = emit32(p, 0);
  p = emit8(p, OP_PUSH); p = emit64(p, (uint64_t) q);
  p = emit8(p, OP_PUSH); p = emit64(p, (uint64_t) VS_UNDEF);
  for (int i = 0; i < NMEMB; i++)
  {
    V_ASSUME(m[i] <= 1);
    found += m[i];
    p = emit8(p, OP_PUSH); p = emit64(p, m[i]);
  }
#if OFSEL == 1
  p = emit8(p, OP_OF);
#else
  p = emit8(p, OP_OF_PERCENT);
#endif
  p = emit64(p, OF_RULE_SET);
  p = emit8(p, OP_MATCH_RULE); p = emit64(p, 0);
  p = emit8(p, OP_HALT);

  g_unload_calls = 0;
  g_arena_live = g_notebook_live = g_heap_live = 0;
  int rc = yr_execute_code(&ctx);
  if (rc == ERROR_INSUFFICIENT_MEMORY) return;
  V_REACH(9);
  V_ASSERT(rc == ERROR_SUCCESS, "result.success");

  int expect;
#if OFSEL == 1
  if (VS_IS_UNDEF(q)) expect = found == NMEMB;
  else if (q == 0) expect = found == 0;
#if VNEG == 1
  else expect = found > q; /* wrong on purpose */
#else
  else expect = found >= q;
#endif
  V_ASSERT(((bm_match[0] & 1) != 0) == (expect != 0), "of.verdict_equals_documented_quantifier");
#else
  if (VS_IS_UNDEF(q) || NMEMB == 0) expect = 0;
#if VNEG == 1
  else expect = (int64_t) found * 100 > q * NMEMB; /* wrong on purpose */
#else
  else expect = (int64_t) found * 100 >= q * NMEMB;
#endif
  V_ASSERT(((bm_match[0] & 1) != 0) == (expect != 0), "percent.at_least_q_percent_of_the_members_exactly");
#endif
}
