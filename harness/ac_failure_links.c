/* C05: _yr_ac_create_failure_links (libyara/ahocorasick.c) on a small trie in which strings
 * of DIFFERENT rules share automaton states:
 *
 *      root --c1--> A --c2--> AB   (three strings end here: matches m0 -> m1 -> m2)
 *      root --c2--> B              (one string ends here:   match  mb)
 *
 * AB's failure state is B, so AB's match list must become  m0, m1, m2, mb : every match
 * a state had before keeps its place (no string of another rule is dropped because of
 * the company it is compiled with) and the failure state's matches follow.
 * Route B: this trie shape; input bytes c1 != c2 and all match fields symbolic.
 * Stubs: yr_arena_ref_to_ptr maps match references to the harness match array;
 * the BFS queue uses libc malloc (not failing).
 */
#include "vharness.h"
#include <stdlib.h>
#include <string.h>

#include "/repo/libyara/ahocorasick.c"

static YR_AC_MATCH mt[4]; /* m0 m1 m2 mb */
void* yr_arena_ref_to_ptr(YR_ARENA* arena, YR_ARENA_REF* ref)
{
  if (YR_ARENA_IS_NULL_REF(*ref)) return NULL;
  return &mt[ref->offset];
}
void* yr_malloc(size_t s) { return malloc(s); }
void yr_free(void* p) { free(p); }

void harness(void)
{
  V_IN(uint8_t, c1);
  V_IN(uint8_t, c2);
  V_IN_ARR(uint16_t, bt, 4);
  V_ASSUME(c1 != c2);
  static YR_AC_AUTOMATON aut;
  static YR_AC_STATE root, A, AB, B;
  memset(&root, 0, sizeof root); memset(&A, 0, sizeof A); memset(&AB, 0, sizeof AB); memset(&B, 0, sizeof B);
  root.matches_ref = A.matches_ref = YR_ARENA_NULL_REF;
  root.first_child = &A; A.siblings = &B; B.siblings = NULL;
  A.input = c1; A.depth = 1; A.first_child = &AB;
  AB.input = c2; AB.depth = 2;
  B.input = c2; B.depth = 1;
  for (int i = 0; i < 4; i++) { memset(&mt[i], 0, sizeof mt[i]); mt[i].backtrack = bt[i]; }
  V_ASSUME(bt[0] >= 2 && bt[1] >= 2 && bt[2] >= 2 && bt[3] >= 1);
  mt[0].next = &mt[1]; mt[1].next = &mt[2]; mt[2].next = NULL; mt[3].next = NULL;
  AB.matches_ref.buffer_id = YR_AC_STATE_MATCHES_POOL; AB.matches_ref.offset = 0;
  B.matches_ref.buffer_id = YR_AC_STATE_MATCHES_POOL; B.matches_ref.offset = 3;
  aut.root = &root; aut.arena = NULL;

  int rc = _yr_ac_create_failure_links(&aut);

  V_ASSERT(rc == ERROR_SUCCESS, "success");
  V_REACH(3);
  V_ASSERT(root.failure == &root && A.failure == &root && B.failure == &root, "failure_links_of_depth_one_states");
  V_ASSERT(AB.failure == &B, "failure_link_is_longest_proper_suffix_state");
  V_ASSERT(AB.matches_ref.offset == 0 && !YR_ARENA_IS_NULL_REF(AB.matches_ref), "own_matches_stay_at_the_head");
#if VNEG == 1
  V_ASSERT(mt[0].next == &mt[1] && mt[1].next == &mt[3], "neg");
#endif
  V_ASSERT(mt[0].next == &mt[1] && mt[1].next == &mt[2], "every_own_match_keeps_its_place");
  V_ASSERT(mt[2].next == &mt[3], "failure_states_matches_follow_the_own_ones");
  V_ASSERT(mt[3].next == NULL, "list_ends_after_the_failure_states_matches");
  V_ASSERT(B.matches_ref.offset == 3, "other_states_list_unchanged");
}
