/* C20: yr_scanner_define_{integer,boolean,float,string}_variable (libyara/scanner.c)
 * with the real yr_object_set_{integer,float,string} (libyara/object.c linked in).
 *
 * Property text: "defining a variable on one scanner never affects another
 * scanner or the shared rule set. Definitions with an unknown identifier or an
 * incompatible type are rejected with the documented error and change nothing".
 *
 * Loop-free code, every scalar input symbolic (route P: plain harness over the
 * full input domain; the frame is checked by snapshots of the objects named in
 * the property: the other scanner, its object, the shared YR_RULES and its
 * external-variable table).
 *
 * Stub (trusted): yr_hash_table_lookup answers NULL or THIS scanner's object
 * for the identifier -- it is asserted that the lookup is made in this
 * scanner's own table.
 * VARIANT 1 integer, 2 boolean, 3 float, 4 string.
 */
#include "vharness.h"
#include <stdlib.h>
#include <string.h>

#include "/repo/libyara/scanner.c"

static YR_SCANNER sc_a, sc_b, sc_b_before;
static YR_RULES rules, rules_before;
static YR_EXTERNAL_VARIABLE ext[2], ext_before[2];
static YR_OBJECT *p_obj_a, obj_b, obj_a_before, obj_b_before;
/* heap object: CBMC's value sets lose a pointer stored in a union member of a static object */
#define obj_a (*p_obj_a)
static int table_a, table_b; /* dummies standing for the two hash tables */
static int in_found;
static int g_lookup_in_own_table;

void* yr_hash_table_lookup(YR_HASH_TABLE* table, const char* key, const char* ns)
{
  g_lookup_in_own_table = (table == (YR_HASH_TABLE*) &table_a);
  return in_found ? &obj_a : NULL;
}
static int g_live;
void* yr_malloc(size_t size) { void* p = malloc(size); if (p) g_live++; return p; }
void yr_free(void* ptr) { if (ptr) g_live--; free(ptr); }

#if VARIANT == 1 || VARIANT == 2
#define OK_TYPE OBJECT_TYPE_INTEGER
#elif VARIANT == 3
#define OK_TYPE OBJECT_TYPE_FLOAT
#else
#define OK_TYPE OBJECT_TYPE_STRING
#endif

void harness(void)
{
  V_IN(uint8_t, found);
  V_IN(int8_t, objtype);
  V_IN(int64_t, oldval);
  V_IN(int64_t, newval);
  V_IN(int64_t, other_val);
  V_IN_ARR(uint8_t, strval, 3);

  V_ASSUME(objtype >= OBJECT_TYPE_INTEGER && objtype <= OBJECT_TYPE_FLOAT);
  p_obj_a = malloc(sizeof(YR_OBJECT));
  V_ASSUME(p_obj_a != NULL);
  memset(p_obj_a, 0, sizeof(YR_OBJECT));
  memset(&sc_a, 0, sizeof sc_a);
  memset(&sc_b, 0, sizeof sc_b);
  sc_a.rules = sc_b.rules = &rules;
  sc_a.objects_table = (YR_HASH_TABLE*) &table_a;
  sc_b.objects_table = (YR_HASH_TABLE*) &table_b;
  rules.ext_vars_table = ext;
  ext[0].type = EXTERNAL_VARIABLE_TYPE_INTEGER;
  ext[0].value.i = other_val;
  ext[0].identifier = "v";
  ext[1].type = EXTERNAL_VARIABLE_TYPE_NULL;
  obj_a.type = objtype;
  obj_b.type = objtype;
  obj_b.value.i = other_val;
  g_live = 0;
  if (objtype == OBJECT_TYPE_STRING)
  {
    obj_a.value.ss = oldval ? yr_malloc(sizeof(SIZED_STRING) + 1) : NULL;
    V_ASSUME(!oldval || obj_a.value.ss != NULL);
  }
  else
    obj_a.value.i = oldval;
  in_found = found != 0;
  memcpy(&sc_b_before, &sc_b, sizeof sc_b);
  memcpy(&rules_before, &rules, sizeof rules);
  memcpy(ext_before, ext, sizeof ext);
  memcpy(&obj_a_before, &obj_a, sizeof obj_a);
  memcpy(&obj_b_before, &obj_b, sizeof obj_b);
  int live_before = g_live;

  char sv[3];
  /* fixed text: a symbolic-length copy into a symbolic-size allocation does not
   * finish in CBMC; the copy itself is libc memcpy */
  sv[0] = 'n'; sv[1] = 'v'; sv[2] = 0;
#if VARIANT == 1
  int rc = yr_scanner_define_integer_variable(&sc_a, "v", newval);
#elif VARIANT == 2
  int rc = yr_scanner_define_boolean_variable(&sc_a, "v", (int) newval);
#elif VARIANT == 3
  double dv;
  memcpy(&dv, &newval, 8);
  int rc = yr_scanner_define_float_variable(&sc_a, "v", dv);
#else
  int rc = yr_scanner_define_string_variable(&sc_a, "v", sv);
#endif

  /* isolation: the other scanner, its object and the shared rule set are untouched */
  V_ASSERT(g_lookup_in_own_table, "lookup_uses_this_scanners_table");
  V_ASSERT(memcmp(&sc_b, &sc_b_before, sizeof sc_b) == 0, "other_scanner_unchanged");
  V_ASSERT(memcmp(&obj_b, &obj_b_before, sizeof obj_b) == 0, "other_scanners_object_unchanged");
  V_ASSERT(memcmp(&rules, &rules_before, sizeof rules) == 0, "shared_rules_unchanged");
  V_ASSERT(memcmp(ext, ext_before, sizeof ext) == 0, "rule_set_externals_unchanged");

  if (!in_found)
  {
    V_REACH(3);
    V_ASSERT(rc == ERROR_INVALID_ARGUMENT, "unknown_identifier_rejected");
    V_ASSERT(memcmp(&obj_a, &obj_a_before, sizeof obj_a) == 0 && g_live == live_before, "rejection_changes_nothing");
    return;
  }
#if VNEG == 2
  if (0)
#else
  if (objtype != OK_TYPE)
#endif
  {
    V_REACH(4);
    V_ASSERT(rc == ERROR_INVALID_EXTERNAL_VARIABLE_TYPE, "wrong_type_rejected");
    V_ASSERT(memcmp(&obj_a, &obj_a_before, sizeof obj_a) == 0 && g_live == live_before, "wrong_type_changes_nothing");
    return;
  }
  V_REACH(5);
  V_ASSERT(obj_a.type == objtype, "object_type_unchanged");
#if VARIANT == 4
  if (rc == ERROR_SUCCESS)
  {
    V_ASSERT(obj_a.value.ss != NULL, "string_value_set");
#ifdef VNATIVE
    /* content check only in the native replay: CBMC loses the provenance of a
     * pointer that is stored in the YR_VALUE union (int64/double/pointers) and
     * read back, the writes of yr_object_set_string through value.ss go to its
     * "invalid object" (tool limit, DESIGN.md 7) */
    V_ASSERT(obj_a.value.ss->length == strlen(sv) &&
                 memcmp(obj_a.value.ss->c_string, sv, strlen(sv) + 1) == 0,
             "string_value_content");
#endif
    V_ASSERT(g_live == 1, "old_string_released_new_one_owned");
  }
  else
  {
    V_ASSERT(rc == ERROR_INSUFFICIENT_MEMORY, "only_documented_error");
    V_ASSERT(obj_a.value.ss == NULL && g_live == 0, "no_dangling_value_after_allocation_failure");
  }
#else
  V_ASSERT(rc == ERROR_SUCCESS, "result.success");
#if VARIANT == 2
  V_ASSERT(obj_a.value.i == (int64_t) (int) newval, "value_set");
#elif VNEG == 1
  V_ASSERT(obj_a.value.i == newval + 1, "value_set");
#else
  V_ASSERT(obj_a.value.i == newval, "value_set");
#endif
#endif
}
