/* C02: _yr_scan_update_match_chain_length (libyara/scan.c) -- when the TAIL of a split hex
 * string / regexp is found, the chain length is propagated back from piece to piece; a piece's
 * unconfirmed match takes part in the reported match iff it lies at a legal distance:
 *      gap_min <= offset(next piece) - end(this piece) <= gap_max      (both bounds INCLUSIVE,
 * the jump [n-m] admits exactly n..m bytes).
 * Chain S1 <- S2 (S2 is chained to S1); call update(S2, mu, L) as the tail handler does.
 *   P  mu.chain_length == L afterwards
 *   Q  every unconfirmed S1 match m: chain_length == L + 1 iff m pairs with mu under S2's gap
 *      bounds, otherwise it keeps its old value; offsets and lengths are untouched
 *   R  when mu already has chain length L nothing at all changes (the early exit)
 * Route B: S1 has <= 2 unconfirmed matches; offsets, lengths, gaps and old chain lengths symbolic.
 */
#include "vharness.h"
#include <stdlib.h>
#include <string.h>

#include "/repo/libyara/scan.c"

YR_API int yr_get_configuration_uint32(YR_CONFIG_NAME name, uint32_t* dest) { *dest = 4; return ERROR_SUCCESS; }
void* yr_notebook_alloc(YR_NOTEBOOK* notebook, size_t size) { return NULL; }

void harness(void)
{
  V_IN_ARR(uint16_t, s1_off, 2);
  V_IN_ARR(uint8_t, s1_len, 2);
  V_IN_ARR(int8_t, s1_chain, 2);
  V_IN(uint8_t, n1);
  V_IN(uint16_t, mu_off);
  V_IN(int8_t, mu_chain);
  V_IN(int8_t, L);
  V_IN(uint16_t, gap_min);
  V_IN(uint16_t, gap_max);

  V_ASSUME(n1 <= 2 && gap_min <= gap_max && gap_max <= 1000 && s1_off[0] < s1_off[1]);
  V_ASSUME(s1_off[1] <= 2000 && mu_off <= 4000 && L >= 1 && L <= 3);
  /* chain lengths are 0 (not yet part of a confirmed chain) or positive */
  V_ASSUME(s1_chain[0] >= 0 && s1_chain[1] >= 0 && mu_chain >= 0 && s1_chain[0] <= 5 && s1_chain[1] <= 5 && mu_chain <= 5);

  static YR_STRING str[2];
  static YR_MATCHES unconf[2];
  static YR_MATCH m1[2], mu;
  static YR_SCAN_CONTEXT ctx;
  memset(str, 0, sizeof str); memset(unconf, 0, sizeof unconf); memset(m1, 0, sizeof m1); memset(&mu, 0, sizeof mu);
  str[0].idx = 0; str[1].idx = 1;
  str[1].chained_to = &str[0]; str[1].chain_gap_min = gap_min; str[1].chain_gap_max = gap_max;
  for (int i = 0; i < 2; i++) { m1[i].offset = s1_off[i]; m1[i].match_length = s1_len[i]; m1[i].chain_length = s1_chain[i]; }
  if (n1 >= 1) { unconf[0].head = &m1[0]; unconf[0].tail = &m1[n1 - 1]; unconf[0].count = n1; }
  if (n1 == 2) { m1[0].next = &m1[1]; m1[1].prev = &m1[0]; }
  mu.offset = mu_off; mu.match_length = 4; mu.chain_length = mu_chain;
  ctx.unconfirmed_matches = unconf;

  _yr_scan_update_match_chain_length(&ctx, &str[1], &mu, L);

  V_ASSERT(mu.chain_length == L, "P.chain_length_recorded");
  V_ASSERT(mu.offset == mu_off && mu.match_length == 4, "F.match_untouched");
  for (int i = 0; i < 2; i++)
  {
    if (i >= n1) break;
    int64_t end = (int64_t) s1_off[i] + s1_len[i];
#if VNEG == 1
    int pairs = end + gap_max > mu_off && end + gap_min <= mu_off; /* wrong on purpose: exclusive upper bound */
#else
    int pairs = end + gap_max >= mu_off && end + gap_min <= mu_off;
#endif
    V_ASSERT(m1[i].offset == s1_off[i] && m1[i].match_length == s1_len[i], "F.earlier_piece_untouched");
    if (mu_chain == L) { V_REACH(3); V_ASSERT(m1[i].chain_length == s1_chain[i], "R.no_change_when_already_recorded"); }
    else if (pairs) { V_REACH(4); V_ASSERT(m1[i].chain_length == L + 1, "Q.piece_at_a_legal_distance_joins_the_chain"); }
    else V_ASSERT(m1[i].chain_length == s1_chain[i], "Q.piece_outside_the_gap_bounds_is_left_alone");
  }
}
