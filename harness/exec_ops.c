/* C04 / C11 / C12 / C15 / C10: the real yr_execute_code() on a fixed micro-program
 * whose operands are fully symbolic ("M" route: bounded in program shape,
 * complete over all 2^64 operand values).
 *
 *   program (binary op):  INIT_RULE 0 ; PUSH a ; PUSH b ; <op> ; PUSH c ;
 *                         INT_EQ ; MATCH_RULE 0 ; HALT
 *   program (unary op):   INIT_RULE 0 ; PUSH a ; <op> ; PUSH c ; INT_EQ ; ...
 *   SHAPE=2 (truth):      INIT_RULE 0 ; PUSH a ; PUSH b ; <op> ; MATCH_RULE 0 ; HALT
 *
 * Obligation (from the property text): rule 0 is flagged as matching iff the
 * documented semantics (specs/vm_spec.h) gives a defined value r, c is defined
 * and r == c   (SHAPE=2: iff r is defined and non-zero).  Since c is arbitrary
 * this pins the operator's result for every operand pair, including the
 * undefined sentinel.
 *
 * -DOPK=<enum vs_op>, built in plain mode only (the interpreter loop cannot be
 * put under a loop contract; see DESIGN.md 1.2 route M).
 */
#include "vharness.h"
#include "vm_spec.h"

#include "/repo/libyara/exec.c"

/* ---- stubs for other translation units (trusted, listed in evidence) ---- */
static uint32_t cfg_stack_size = 8;
int g_unload_calls;

YR_API int yr_get_configuration_uint32(YR_CONFIG_NAME name, uint32_t* dest)
{
  *dest = cfg_stack_size;
  return ERROR_SUCCESS;
}
int yr_modules_unload_all(YR_SCAN_CONTEXT* context)
{
  g_unload_calls++;
  return ERROR_SUCCESS;
}
uint64_t yr_stopwatch_elapsed_ns(YR_STOPWATCH* sw) { return 0; }

/* resource stubs with ghost live-counters (C10/C16: everything acquired in the
 * prologue is released exactly once on every exit) */
int g_arena_live, g_notebook_live, g_heap_live;
static YR_ARENA dummy_arena;
static int dummy_notebook;
#ifdef VNATIVE
static int nondet_fail(void) { return 0; }
#else
int nondet_fail(void);
#endif
int yr_arena_create(uint32_t n, size_t sz, YR_ARENA** arena)
{
  if (nondet_fail()) return ERROR_INSUFFICIENT_MEMORY;
  g_arena_live++;
  *arena = &dummy_arena;
  return ERROR_SUCCESS;
}
static YR_OBJECT* dummy_objs[4];
void* yr_arena_get_ptr(YR_ARENA* arena, uint32_t buffer_id, yr_arena_off_t offset)
{
  return dummy_objs;
}
int yr_arena_release(YR_ARENA* arena)
{
  g_arena_live--;
  return ERROR_SUCCESS;
}
int yr_notebook_create(size_t page_size, YR_NOTEBOOK** pool)
{
  if (nondet_fail()) return ERROR_INSUFFICIENT_MEMORY;
  g_notebook_live++;
  *pool = (YR_NOTEBOOK*) &dummy_notebook;
  return ERROR_SUCCESS;
}
int yr_notebook_destroy(YR_NOTEBOOK* pool)
{
  g_notebook_live--;
  return ERROR_SUCCESS;
}
void* yr_malloc(size_t size)
{
  void* p = malloc(size);
  if (p != NULL) g_heap_live++;
  return p;
}
void yr_free(void* ptr)
{
  if (ptr != NULL) g_heap_live--;
  free(ptr);
}
static YR_RULE rtab[1];
int yr_arena_ptr_to_ref(YR_ARENA* arena, const void* address, YR_ARENA_REF* ref)
{
  /* the only arena buffer of the harness is the rules table */
  return (const uint8_t*) address >= (const uint8_t*) rtab &&
         (const uint8_t*) address < (const uint8_t*) rtab + sizeof(rtab);
}

#if OPK == VS_ADD
#define OPC OP_INT_ADD
#elif OPK == VS_SUB
#define OPC OP_INT_SUB
#elif OPK == VS_MUL
#define OPC OP_INT_MUL
#elif OPK == VS_DIV
#define OPC OP_INT_DIV
#elif OPK == VS_MOD
#define OPC OP_MOD
#elif OPK == VS_XOR
#define OPC OP_BITWISE_XOR
#elif OPK == VS_BAND
#define OPC OP_BITWISE_AND
#elif OPK == VS_BOR
#define OPC OP_BITWISE_OR
#elif OPK == VS_SHL
#define OPC OP_SHL
#elif OPK == VS_SHR
#define OPC OP_SHR
#elif OPK == VS_EQ
#define OPC OP_INT_EQ
#elif OPK == VS_NEQ
#define OPC OP_INT_NEQ
#elif OPK == VS_LT
#define OPC OP_INT_LT
#elif OPK == VS_GT
#define OPC OP_INT_GT
#elif OPK == VS_LE
#define OPC OP_INT_LE
#elif OPK == VS_GE
#define OPC OP_INT_GE
#elif OPK == VS_AND
#define OPC OP_AND
#elif OPK == VS_OR
#define OPC OP_OR
#elif OPK == VS_NOT
#define OPC OP_NOT
#define UNARY 1
#elif OPK == VS_BNOT
#define OPC OP_BITWISE_NOT
#define UNARY 1
#elif OPK == VS_MINUS
#define OPC OP_INT_MINUS
#define UNARY 1
#elif OPK == VS_DEFINED
#define OPC OP_DEFINED
#define UNARY 1
#elif OPK == VS_DEQ
#define OPC OP_DBL_EQ
#elif OPK == VS_DNEQ
#define OPC OP_DBL_NEQ
#elif OPK == VS_DLT
#define OPC OP_DBL_LT
#elif OPK == VS_DGT
#define OPC OP_DBL_GT
#elif OPK == VS_DLE
#define OPC OP_DBL_LE
#elif OPK == VS_DGE
#define OPC OP_DBL_GE
#else
#error OPK
#endif

#ifndef SHAPE
#define SHAPE 1
#endif

static YR_NAMESPACE ns0;
static YR_ARENA rarena;
static YR_RULES rules;
static YR_SCAN_CONTEXT ctx;
static YR_BITMASK bm_match[1], bm_ns[1], bm_req[1];
static uint8_t code[64];

static size_t emit8(size_t p, uint8_t v) { code[p] = v; return p + 1; }
static size_t emit64(size_t p, uint64_t v)
{
  memcpy(code + p, &v, 8);
  return p + 8;
}
static size_t emit32(size_t p, uint32_t v)
{
  memcpy(code + p, &v, 4);
  return p + 4;
}

void harness(void)
{
  V_IN(int64_t, a);
  V_IN(int64_t, b);
  V_IN(int64_t, c);

#ifdef NARROW
  /* 64-bit division is out of reach of every installed back end (DESIGN.md 7).
   * Bounded stand-in: NARROW=1: both operands sign-extended 8-bit values;
   * NARROW=2..: one operand a corner value of the documented semantics
   * (INT64_MIN, -1, 0, undefined), the other one unconstrained 64-bit. */
  V_IN(int8_t, a8);
  V_IN(int8_t, b8);
#if NARROW == 1
  a = a8; b = b8;
#elif NARROW == 2
  b = 0;
#elif NARROW == 3
  b = -1;
#elif NARROW == 4
  b = VS_UNDEF;
#elif NARROW == 5
  a = VS_UNDEF;
#elif NARROW == 6
  a = INT64_MIN; b = b8;
#elif NARROW == 7
  b = 1;
#endif
#endif
  memset(rtab, 0, sizeof rtab);
  rtab[0].ns = &ns0;
  ns0.idx = 0;
  rarena.num_buffers = 1;
  rarena.xrefs = 1;
  rarena.buffers[0].data = (uint8_t*) rtab;
  rarena.buffers[0].size = sizeof rtab;
  rarena.buffers[0].used = sizeof rtab;
  rules.arena = &rarena;
  rules.rules_table = rtab;
  rules.num_rules = 1;
  rules.num_namespaces = 1;
  rules.code_start = code;
  memset(&ctx, 0, sizeof ctx);
  ctx.rules = &rules;
  ctx.rule_matches_flags = bm_match;
  ctx.ns_unsatisfied_flags = bm_ns;
  ctx.required_eval = bm_req;
  bm_match[0] = 0;
  bm_ns[0] = 0;
  bm_req[0] = 1; /* rule 0 must be evaluated */

  size_t p = 0;
  p = emit8(p, OP_INIT_RULE);
  p = emit32(p, 0); /* jump offset, not taken */
  p = emit32(p, 0); /* rule index */
  p = emit8(p, OP_PUSH);
  p = emit64(p, (uint64_t) a);
#ifndef UNARY
  p = emit8(p, OP_PUSH);
  p = emit64(p, (uint64_t) b);
#endif
  p = emit8(p, OPC);
#if SHAPE == 1
  p = emit8(p, OP_PUSH);
  p = emit64(p, (uint64_t) c);
  p = emit8(p, OP_INT_EQ);
#endif
  p = emit8(p, OP_MATCH_RULE);
  p = emit64(p, 0);
  p = emit8(p, OP_HALT);

  g_unload_calls = 0;
  g_arena_live = g_notebook_live = g_heap_live = 0;
  int rc = yr_execute_code(&ctx);

  V_ASSERT(g_arena_live == 0 && g_notebook_live == 0 && g_heap_live == 0,
           "exit.prologue_resources_released_exactly_once");
  if (rc == ERROR_INSUFFICIENT_MEMORY)
  {
    /* C16: an allocation failure in the prologue is reported, nothing else
     * happened */
    V_ASSERT(bm_match[0] == 0, "alloc_failure.no_verdict");
    return;
  }
  V_REACH(9);
  V_ASSERT(rc == ERROR_SUCCESS, "result.success");

#ifdef UNARY
  int64_t r = vs_unop(OPK, a);
#else
  int64_t r = vs_binop(OPK, a, b);
#endif

#if SHAPE == 1
#if VNEG == 1
  int expect = (r == c); /* wrong: undefined compares equal to undefined */
#elif VNEG == 2
  int expect = !VS_IS_UNDEF(r) && !VS_IS_UNDEF(c) && r == c + 1;
#else
  int expect = !VS_IS_UNDEF(r) && !VS_IS_UNDEF(c) && r == c;
#endif
#else
#if VNEG == 1
  int expect = (r != 0); /* wrong: an undefined condition counts as true */
#elif VNEG == 2
  int expect = !VS_TRUTH(r);
#else
  int expect = VS_TRUTH(r);
#endif
#endif
  V_ASSERT(((bm_match[0] & 1) != 0) == (expect != 0), "verdict.equals_documented_semantics");
  V_ASSERT(bm_ns[0] == 0, "namespace.not_marked_by_non_global_rule");
  V_ASSERT(g_unload_calls == 1, "exit.modules_unloaded_exactly_once");
}
