/* C01 / C15: _yr_scan_add_match_to_list and _yr_scan_remove_match_from_list (libyara/scan.c):
 * the per-string match list that conditions read (#a, @a[i], $a at x ...).
 * Representation invariant  L: doubly linked, strictly ascending base+offset (so: no
 * duplicate offset), head/tail correct, count = number of nodes.
 *   add    L is preserved; the new match is in the list afterwards iff no match with the
 *          same base+offset was there (then: replace_if_exists updates length/data of the
 *          existing one, nothing else); every old match stays, in the same order;
 *          count == YR_MAX_STRING_MATCHES -> ERROR_TOO_MANY_MATCHES and nothing changes
 *   remove L is preserved, exactly that node leaves, its links are cleared
 * Route B: lists of <= 3 nodes, all offsets symbolic. Static objects.
 */
#include "vharness.h"
#include <string.h>
#include <stdlib.h>

#include "/repo/libyara/scan.c"

#define N 3
static YR_MATCH node[N], nm;
static YR_MATCHES list;

static int wellformed(int expect_count)
{
  int c = 0; YR_MATCH* prev = NULL;
  for (YR_MATCH* m = list.head; m != NULL && c <= N + 1; m = m->next, c++)
  {
    if (m->prev != prev) return 0;
    if (prev != NULL && !(prev->base + prev->offset < m->base + m->offset)) return 0;
    prev = m;
  }
  return c == expect_count && list.tail == prev;
}
static int contains(YR_MATCH* x)
{
  int c = 0;
  for (YR_MATCH* m = list.head; m != NULL && c <= N + 1; m = m->next, c++) if (m == x) return 1;
  return 0;
}

void harness(void)
{
  V_IN(uint8_t, n);
  V_IN_ARR(uint32_t, off, N);
  V_IN(uint32_t, new_off);
  V_IN(uint8_t, replace);
  V_IN(int32_t, count0);
  V_IN(int32_t, new_len);
  V_IN(uint8_t, op);      /* 0 add, 1 remove */
  V_IN(uint8_t, victim);
  V_ASSUME(n <= N && off[0] < off[1] && off[1] < off[2] && replace <= 1 && op <= 1);
  memset(node, 0, sizeof node); memset(&nm, 0, sizeof nm); memset(&list, 0, sizeof list);
  for (int i = 0; i < N; i++)
  {
    node[i].base = 0; node[i].offset = off[i]; node[i].match_length = 1; node[i].data_length = 1;
    node[i].prev = (i > 0 && i < n) ? &node[i - 1] : NULL;
    node[i].next = (i + 1 < n) ? &node[i + 1] : NULL;
  }
  list.head = n > 0 ? &node[0] : NULL; list.tail = n > 0 ? &node[n - 1] : NULL;
  nm.base = 0; nm.offset = new_off; nm.match_length = new_len; nm.data_length = 2; nm.data = (const uint8_t*) "xy";

  if (op == 1)
  {
    V_ASSUME(victim < n);
    list.count = n;
    _yr_scan_remove_match_from_list(&node[victim], &list);
    V_REACH(3);
    V_ASSERT(wellformed(n - 1) && list.count == n - 1, "remove.invariant_and_count");
    V_ASSERT(!contains(&node[victim]) && node[victim].next == NULL && node[victim].prev == NULL, "remove.node_detached");
    for (int i = 0; i < N; i++) if (i < n && i != victim) V_ASSERT(contains(&node[i]), "remove.others_stay");
    return;
  }
  /* the count may be anything from the real length up to the limit (the limit case cannot be
   * built node by node) */
  V_ASSUME(count0 == n || count0 == YR_MAX_STRING_MATCHES);
  list.count = count0;
  int rc = _yr_scan_add_match_to_list(&nm, &list, replace);
#if VNEG == 1
  if (count0 == YR_MAX_STRING_MATCHES - 1)
#else
  if (count0 == YR_MAX_STRING_MATCHES)
#endif
  {
    V_REACH(4);
    V_ASSERT(rc == ERROR_TOO_MANY_MATCHES, "limit.documented_error_at_one_million_matches");
    V_ASSERT(wellformed(n) && list.count == count0 && !contains(&nm), "limit.list_untouched");
    return;
  }
  V_ASSERT(rc == ERROR_SUCCESS, "add.success");
  int dup = -1;
  for (int i = 0; i < N; i++) if (i < n && off[i] == new_off) dup = i;
  if (dup >= 0)
  {
    V_REACH(5);
    V_ASSERT(wellformed(n) && list.count == n && !contains(&nm), "add.duplicate_offset_not_inserted");
    if (replace) V_ASSERT(node[dup].match_length == new_len && node[dup].data_length == 2 && node[dup].data == nm.data, "add.duplicate_replaced_when_asked");
    else V_ASSERT(node[dup].match_length == 1 && node[dup].data_length == 1, "add.duplicate_kept_when_not_asked");
  }
  else
  {
    V_REACH(6);
    V_ASSERT(wellformed(n + 1) && list.count == n + 1 && contains(&nm), "add.inserted_in_ascending_position");
  }
  for (int i = 0; i < N; i++)
    if (i < n)
    {
      V_ASSERT(contains(&node[i]) && node[i].offset == off[i], "add.old_matches_stay");
      if (i != dup) V_ASSERT(node[i].match_length == 1, "add.old_matches_unchanged");
    }
}
