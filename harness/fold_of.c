/* C12: the grammar.y actions for `<quantifier> of <string set>` (plain, `in <range>`,
 * `at <offset>`), extracted mechanically (extract/bison_actions.py).
 * These actions decide `required_strings`: a rule whose condition "requires a string" is
 * NOT evaluated at all when no string of the rule matched (scanner shortcut). The shortcut
 * never changes a verdict only if the expression is false whenever nothing matched:
 *   Q  required_strings.count is 0 or 1; it is 1 only if the quantifier is `all`, `any`
 *      or an integer KNOWN at compile time to be >= 1. A quantifier that is not a
 *      compile-time constant (external variable, #a, filesize: value YR_UNDEFINED here) may
 *      be 0 at scan time, and `0 of them` is TRUE when nothing matches.
 *   the result is boolean; the action fails only for a non-integer `at` operand or an
 *   emitter error.
 * Route P: loop-free action text, all operand fields symbolic.
 */
#include "vharness.h"
#include "vm_spec.h"
#ifndef VNATIVE
#include <stdio.h>
#endif
#include "grammar_used.c"

int g_emit_rc;
int yr_parser_emit(yyscan_t s, uint8_t i, YR_ARENA_REF* r) { return g_emit_rc; }
int yr_parser_emit_with_arg(yyscan_t s, uint8_t i, int64_t a, YR_ARENA_REF* r1, YR_ARENA_REF* r2) { return g_emit_rc; }
void yara_yyerror(yyscan_t yyscanner, YR_COMPILER* compiler, const char* m) {}
void yara_yywarning(yyscan_t yyscanner, const char* fmt, ...) {}
size_t strlcpy(char* dst, const char* src, size_t size) { if (size > 0) dst[0] = 0; return 0; }

#include "fold_actions.h"

#if OFSEL == 1
#define ACT act_of_strings
#define NSLOTS 3
#elif OFSEL == 2
#define ACT act_of_strings_in
#define NSLOTS 5
#elif OFSEL == 3
#define ACT act_of_strings_at
#define NSLOTS 5
#else
#error OFSEL
#endif

void harness(void)
{
  V_IN(int, qtype);
  V_IN(int64_t, qval);
  V_IN(int64_t, nstrings);
  V_IN(int, at_type);
  V_IN(int, emit_rc);
  static YYSTYPE stack[NSLOTS], out;
  static YR_COMPILER compiler;
  memset(stack, 0, sizeof stack);
  V_ASSUME(qtype == EXPRESSION_TYPE_INTEGER || qtype == EXPRESSION_TYPE_QUANTIFIER);
  /* what the for_expression rule produces: an integer expression (constant or YR_UNDEFINED
   * for "not a compile-time constant"; negative constants are rejected there) or one of the
   * quantifier keywords */
  V_ASSUME(qtype != EXPRESSION_TYPE_INTEGER || qval >= 0 || VS_IS_UNDEF(qval));
  V_ASSUME(qtype != EXPRESSION_TYPE_QUANTIFIER || qval == FOR_EXPRESSION_ALL || qval == FOR_EXPRESSION_ANY || qval == FOR_EXPRESSION_NONE);
  V_ASSUME(nstrings >= 1 && nstrings <= 100000);
  stack[0].expression.type = qtype;
  stack[0].expression.value.integer = qval;
  stack[2].integer = nstrings;
#if OFSEL == 3
  stack[4].expression.type = at_type;
#endif
  g_emit_rc = emit_rc;
  out = stack[0]; /* bison driver: $$ = $1 */

  int rc = ACT(stack + (NSLOTS - 1), &out, NULL, &compiler);

  if (rc != ACT_OK)
  {
#if OFSEL == 3
    V_ASSERT(at_type != EXPRESSION_TYPE_INTEGER, "rejected_only_for_non_integer_at_operand");
#else
    V_ASSERT(0, "never_rejected");
#endif
    return;
  }
  V_REACH(3);
  V_ASSERT(out.expression.type == EXPRESSION_TYPE_BOOLEAN, "result_is_boolean");
  int cnt = out.expression.required_strings.count;
  V_ASSERT(cnt == 0 || cnt == 1, "Q.count_is_zero_or_one");
  int must_have_match =
      (qtype == EXPRESSION_TYPE_QUANTIFIER && (qval == FOR_EXPRESSION_ALL || qval == FOR_EXPRESSION_ANY)) ||
#if VNEG == 1
      (qtype == EXPRESSION_TYPE_INTEGER && qval != 0);
#else
      (qtype == EXPRESSION_TYPE_INTEGER && !VS_IS_UNDEF(qval) && qval >= 1);
#endif
  V_ASSERT(cnt == 0 || must_have_match, "Q.requires_a_string_only_if_false_without_matches");
  /* the shortcut is taken wherever it is sound (performance contract of the original) */
  V_ASSERT(!must_have_match || cnt == 1, "Q.shortcut_used_when_sound");
}
