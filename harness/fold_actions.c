/* C12 / C07: compile-time constant folding actions of libyara/grammar.y.
 *
 * The action text is extracted mechanically on every run from bison's output
 * (extract/bison_actions.py, see DESIGN.md 1.1) into <wd>/fold_actions.h; this
 * harness includes the grammar.c the text came from (types + prologue macros
 * check_type / fail_if_error / OPERATION stay the real ones).
 *
 * fold_bin()/fold_un() emulate exactly what the bison driver does around an
 * action:  $$ = $1  (yyval = yyvsp[1-yylen]) and yyvsp pointing at the top
 * slot.  The contract sits on these wrappers.
 *
 * Contract (post-conditions from the property text, C12: "constant
 * expressions are folded to exactly the value the scanner computes at run
 * time; compile-time checks accept and reject exactly the right rules"):
 *   F1  both operands known constants, action succeeds
 *         => folded value == vs_binop(op, a, b)          (specs/vm_spec.h, the
 *            same function the VM opcode is proved against in C04.exec.op.*)
 *   F2  an operand is not a compile-time constant (marker YR_UNDEFINED) and the
 *       action still produces a known constant v
 *         => for every defined run-time value of the unknown operand(s) the
 *            run-time result is v               (ghost values xa, xb)
 *   F3  the action rejects (YYERROR/YYABORT) only if the emitter reported an
 *       error, an operand has the wrong type, or the operands are known and
 *       the documented semantics has no value for them: true overflow of + - *,
 *       division by zero, negative shift count
 *   C07 no trapping undefined behaviour for any operand pair (division
 *       overflow / division by zero checks are on)
 */
#include "vharness.h"
#include "vm_spec.h"

#ifndef VNATIVE
#include <stdio.h>
/* non-variadic stub (dfcc does not thread the write set through variadic
 * calls); the format arguments are still evaluated */
#define snprintf(s, n, ...) vstub_snprintf((s), (n), vstub_args(__VA_ARGS__))
static inline int vstub_args(const char* fmt, ...) { return 0; }
int vstub_snprintf(char* s, size_t n, int unused);
#endif
#include "grammar_used.c"

/* ---- stubs: emitter and diagnostics (other translation units) ---------- */
int g_emit_rc; /* ghost: what the emitter answered */
#ifndef VNATIVE
int nondet_int(void);
#define NONDET_INT() nondet_int()
#endif

int yr_parser_reduce_operation(
    yyscan_t yyscanner, const char* op, YR_EXPRESSION l, YR_EXPRESSION r)
{
  /* The emitter answers the same arbitrary code g_emit_rc on every call of
   * one action: fail_if_error(e) evaluates its argument up to four times, a
   * stub answering differently each time would create paths no real emitter
   * has (noted in DESIGN.md as an observation on the macro). */
  return g_emit_rc;
}
int yr_parser_emit(yyscan_t yyscanner, uint8_t instruction, YR_ARENA_REF* ref)
{
  /* The emitter answers the same arbitrary code g_emit_rc on every call of
   * one action: fail_if_error(e) evaluates its argument up to four times, a
   * stub answering differently each time would create paths no real emitter
   * has (noted in DESIGN.md as an observation on the macro). */
  return g_emit_rc;
}
void yara_yyerror(yyscan_t yyscanner, YR_COMPILER* compiler, const char* m) {}
#ifndef VNATIVE
/* snprintf (used by yr_compiler_set_error_extra_info_fmt): writes at most n
 * bytes to s; the text itself is irrelevant here. C07: the n bytes must fit. */
int vstub_snprintf(char* s, size_t n, int unused)
{
  __CPROVER_assert(
      n <= __CPROVER_OBJECT_SIZE(s) - __CPROVER_POINTER_OFFSET(s),
      "snprintf: size argument fits the destination buffer");
  if (n > 0)
  {
    /* the produced text is not observed by any obligation; first and last
     * byte are written so that the frame (assigns) check sees the access */
    s[0] = (char) NONDET_INT();
    s[n - 1] = 0;
  }
  return NONDET_INT();
}
#endif

#include "fold_actions.h"

#if OPK == VS_ADD
#define ACT act_add
#elif OPK == VS_SUB
#define ACT act_sub
#elif OPK == VS_MUL
#define ACT act_mul
#elif OPK == VS_DIV
#define ACT act_div
#elif OPK == VS_MOD
#define ACT act_mod
#elif OPK == VS_XOR
#define ACT act_xor
#elif OPK == VS_BAND
#define ACT act_band
#elif OPK == VS_BOR
#define ACT act_bor
#elif OPK == VS_SHL
#define ACT act_shl
#elif OPK == VS_SHR
#define ACT act_shr
#elif OPK == VS_BNOT
#define ACT act_bnot
#define UNARY 1
#elif OPK == VS_MINUS
#define ACT act_minus
#define UNARY 1
#else
#error OPK
#endif

#ifdef UNARY
#define NSLOTS 2
#define OPERAND_B(s) VS_UNDEF
#else
#define NSLOTS 3
#endif

/* true mathematical overflow of + - *  (what ERROR_INTEGER_OVERFLOW documents) */
static inline int math_overflow(int op, int64_t a, int64_t b)
{
  int64_t r;
  if (op == VS_ADD) return __builtin_add_overflow(a, b, &r);
  if (op == VS_SUB) return __builtin_sub_overflow(a, b, &r);
  if (op == VS_MUL) return __builtin_mul_overflow(a, b, &r);
  return 0;
}

/* may the compiler reject known operands a, b? */
#define REJECT_OK(a, b)                                                        \
  ((OPK == VS_ADD || OPK == VS_SUB || OPK == VS_MUL)                           \
       ? (!VS_IS_UNDEF(a) && !VS_IS_UNDEF(b) && math_overflow(OPK, a, b))      \
   : (OPK == VS_DIV || OPK == VS_MOD) ? ((b) == 0)                             \
   : (OPK == VS_SHL || OPK == VS_SHR) ? (!VS_IS_UNDEF(b) && (b) < 0)           \
                                      : 0)

#define IS_INT(e) ((e).type == EXPRESSION_TYPE_INTEGER)

#ifndef UNARY
#define RESULT_OF(a, b) vs_binop(OPK, a, b)
#else
#define RESULT_OF(a, b) vs_unop(OPK, a)
#endif

/* the post-condition, as an executable predicate over
 *   rc, out (= $$), a (= $1 / $2), b (= $3), ghost defined values xa, xb */
#define EFF(v, x) (VS_IS_UNDEF(v) ? (x) : (v))
#if VNEG == 1
#define F1(rc, outv, a, b) \
  IMPLIES((rc) == ACT_OK && !VS_IS_UNDEF(a) && (NSLOTS == 2 || !VS_IS_UNDEF(b)), (outv) == RESULT_OF(a, b) + 1)
#else
#define F1(rc, outv, a, b) \
  IMPLIES((rc) == ACT_OK && !VS_IS_UNDEF(a) && (NSLOTS == 2 || !VS_IS_UNDEF(b)), (outv) == RESULT_OF(a, b))
#endif
#define F2(rc, outv, a, b, xa, xb)                           \
  IMPLIES((rc) == ACT_OK && !VS_IS_UNDEF(outv) &&            \
              !VS_IS_UNDEF(xa) && !VS_IS_UNDEF(xb),          \
          RESULT_OF(EFF(a, xa), EFF(b, xb)) == (outv))
#if VNEG == 2
#define F3(rc, a, b) IMPLIES((rc) != ACT_OK, g_emit_rc != ERROR_SUCCESS) /* wrong: no compile-time rejection at all */
#else
#define F3(rc, a, b) \
  IMPLIES((rc) != ACT_OK, (g_emit_rc != ERROR_SUCCESS && g_emit_rc != ERROR_UNKNOWN_ESCAPE_SEQUENCE) || REJECT_OK(a, b))
#endif
#define IMPLIES(p, q) (!(p) || (q))

#ifndef UNARY
#define OPA(st) ((st)[0].expression.value.integer)
#define OPB(st) ((st)[2].expression.value.integer)
#define TYPES_INT(st) (IS_INT((st)[0].expression) && IS_INT((st)[2].expression))
#else
#define OPA(st) ((st)[1].expression.value.integer)
#define OPB(st) VS_UNDEF
#define TYPES_INT(st) (IS_INT((st)[1].expression))
#endif

/* ghost "any defined run-time value" of an operand that is not a constant */
int64_t g_xa, g_xb;

static int fold(YYSTYPE* stack, YYSTYPE* out, void* yyscanner, YR_COMPILER* compiler)
#ifdef VMODE_CONTRACT
    /* clang-format off */
__CPROVER_requires(__CPROVER_is_fresh(stack, NSLOTS * sizeof(YYSTYPE)))
__CPROVER_requires(__CPROVER_is_fresh(out, sizeof(YYSTYPE)))
__CPROVER_requires(__CPROVER_is_fresh(compiler, sizeof(YR_COMPILER)))
__CPROVER_requires(TYPES_INT(stack))
__CPROVER_assigns(*out, __CPROVER_object_whole(compiler))
__CPROVER_ensures(__CPROVER_return_value == ACT_OK || __CPROVER_return_value == ACT_ERROR || __CPROVER_return_value == ACT_ABORT)
__CPROVER_ensures(__CPROVER_return_value == ACT_OK ==> out->expression.type == EXPRESSION_TYPE_INTEGER)
__CPROVER_ensures(F1(__CPROVER_return_value, out->expression.value.integer, OPA(stack), OPB(stack)))
__CPROVER_ensures(F2(__CPROVER_return_value, out->expression.value.integer, OPA(stack), OPB(stack), g_xa, g_xb))
__CPROVER_ensures(F3(__CPROVER_return_value, OPA(stack), OPB(stack)))
    /* clang-format on */
#endif
{
  /* what the bison driver does before the action: $$ = $1 */
  *out = stack[0];
  return ACT(stack + (NSLOTS - 1), out, yyscanner, compiler);
}

#ifdef VMODE_CONTRACT
void harness(void)
{
  YYSTYPE* stack;
  YYSTYPE* out;
  YR_COMPILER* compiler;
  void* yyscanner;
  g_emit_rc = nondet_int();
  fold(stack, out, yyscanner, compiler);
}
#else
void harness(void)
{
  V_IN(int64_t, a);
  V_IN(int64_t, b);
  V_IN(int64_t, xa);
  V_IN(int64_t, xb);
  V_IN(int, emit_rc);
  static YYSTYPE stack[3], out;
  static YR_COMPILER compiler;
#ifdef NARROW
  /* 64-bit multiplication/division equalities are out of reach of every
   * installed back end (DESIGN.md 7). Bounded stand-in, operand classes:
   * 1: both sign-extended 8-bit; 2: b = 0; 3: b = -1; 4: b not a constant;
   * 5: a not a constant; 6: a = INT64_MIN, b 8-bit; 7: b = 1;
   * 8: a = INT64_MAX, b 8-bit */
  V_IN(int8_t, a8);
  V_IN(int8_t, b8);
#if NARROW == 1
  a = a8; b = b8;
#elif NARROW == 2
  b = 0;
#elif NARROW == 3
  b = -1;
#elif NARROW == 4
  b = VS_UNDEF;
#elif NARROW == 5
  a = VS_UNDEF;
#elif NARROW == 6
  a = INT64_MIN; b = b8;
#elif NARROW == 7
  b = 1;
#elif NARROW == 8
  a = INT64_MAX; b = b8;
#endif
#endif
  memset(stack, 0, sizeof stack);
#ifndef UNARY
  stack[0].expression.type = EXPRESSION_TYPE_INTEGER;
  stack[0].expression.value.integer = a;
  stack[2].expression.type = EXPRESSION_TYPE_INTEGER;
  stack[2].expression.value.integer = b;
#else
  stack[1].expression.type = EXPRESSION_TYPE_INTEGER;
  stack[1].expression.value.integer = a;
#endif
  g_xa = xa;
  g_xb = xb;
  g_emit_rc = emit_rc;
  int rc = fold(stack, &out, NULL, &compiler);
  V_ASSERT(rc == ACT_OK || rc == ACT_ERROR || rc == ACT_ABORT, "result.code");
  V_ASSERT(IMPLIES(rc == ACT_OK, out.expression.type == EXPRESSION_TYPE_INTEGER), "result.type");
  V_ASSERT(F1(rc, out.expression.value.integer, OPA(stack), OPB(stack)), "F1.fold_equals_runtime_value");
  V_ASSERT(F2(rc, out.expression.value.integer, OPA(stack), OPB(stack), g_xa, g_xb), "F2.partial_fold_sound");
  V_ASSERT(F3(rc, OPA(stack), OPB(stack)), "F3.rejects_only_undefined_or_overflow");
}
#endif
