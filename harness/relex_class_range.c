/* C07 / C03: the re_lexer.l action for a character-class range `a-z`, `\x00-\xff`, `\w-z`...,
 * extracted mechanically on every run from the generated libyara/re_lexer.c
 * (extract/flex_actions.py; what the extraction drops is listed there).
 *
 * For every three characters of token text and every answer of the escape readers:
 *   T  the action TERMINATES: its fill loop runs at most 256 times (the runner counts the
 *      unwinding assertion of this loop as an obligation, `termination_bounds`) -- a lexer that
 *      spins forever on `[\x80-\xff]` is a compiler that hangs on valid text
 *   E  a reversed range or a bad escape is DIAGNOSED (yyerror called once, scanning terminated)
 *      and the class bitmap is not modified
 *   B  otherwise exactly the bits start..end are added to the bitmap (ghost index), nothing
 *      outside the 32 bitmap bytes is written (CBMC bounds checks on the extracted text)
 * -DTERM_ONLY: obligations T, E (diagnosis), bounds, for ALL ranges. -DSHORT_RANGES: B and E (bitmap)
 * for ranges of at most 8 characters.
 * Route B only because of the unwinding bound 257 = the loop's documented maximum + 1.
 */
#include "vharness.h"
#include <string.h>
#include <stdlib.h>
#include <stdbool.h>
#include <yara/types.h>
#include <yara/re.h>
#include <yara/re_lexer.h>

static int g_errors;
static uint8_t in_esc_ok, in_esc_val, in_read_ok, in_read_val;
#undef yyerror
#define yyerror vstub_yyerror
static void vstub_yyerror(void* yyscanner, void* lex_env, const char* msg) { g_errors++; }
static int escaped_char_value(char* text, uint8_t* value, bool strict) { if (in_esc_ok) *value = in_esc_val; return in_esc_ok; }
static int read_escaped_char(void* yyscanner, uint8_t* value, bool strict) { if (in_read_ok) *value = in_read_val; return in_read_ok; }

#include "flex_actions.h"

static RE_LEX_ENVIRONMENT env;
#ifdef VNATIVE
#include <signal.h>
#include <unistd.h>
static void on_alarm(int s) { printf("REPLAY: VIOLATED T.action_terminates: still running after 3 s\n"); fflush(stdout); _exit(1); }
#endif

void harness(void)
{
  V_IN_ARR(uint8_t, text, 8);
  V_IN_ARR(uint8_t, bitmap0, 32);
  V_IN(uint8_t, esc_ok); V_IN(uint8_t, esc_val); V_IN(uint8_t, read_ok); V_IN(uint8_t, read_val);
  V_IN(uint8_t, strict);
  V_IN(uint8_t, ghost);
  static char yytext[9];
  for (int i = 0; i < 8; i++) yytext[i] = (char) text[i];
  yytext[8] = 0;
  for (int i = 0; i < 32; i++) env.re_class.bitmap[i] = bitmap0[i];
  env.strict_escape = strict != 0;
  in_esc_ok = esc_ok != 0; in_esc_val = esc_val; in_read_ok = read_ok != 0; in_read_val = read_val;
  g_errors = 0;
#ifdef VNATIVE
  signal(SIGALRM, on_alarm); alarm(3);
#endif

  /* what the action is documented to do */
  uint8_t start = text[0], end = text[2];
  int bad = 0;
  if (start == '\\')
  {
    if (!in_esc_ok) bad = 1; else start = esc_val;
    end = text[1] == 'x' ? text[5] : text[3];
  }
  if (!bad && end == '\\') { if (!in_read_ok) bad = 1; else end = read_val; }
  if (!bad && end < start) bad = 1;
#ifdef SHORT_RANGES
  /* the 256 symbolic-index updates of a full-width range against a symbolic bitmap do not finish
   * in CBMC; the CONTENT of the bitmap is checked for ranges of <= 8 characters, termination and
   * diagnosis for all ranges (-DTERM_ONLY) */
  V_ASSUME(bad || end - start <= 7);
#endif
  int r = act_class_range(yytext, NULL, &env);

  int before = (bitmap0[ghost / 8] >> (ghost % 8)) & 1;
  int after = (env.re_class.bitmap[ghost / 8] >> (ghost % 8)) & 1;
  if (bad)
  {
    V_REACH(3);
    V_ASSERT(r == ACT_TERMINATE && g_errors == 1, "E.bad_range_or_escape_is_diagnosed");
#ifndef TERM_ONLY
    V_ASSERT(after == before, "E.bitmap_untouched_on_error");
#endif
    return;
  }
  V_REACH(4);
  V_ASSERT(r == ACT_CONTINUE && g_errors == 0, "B.valid_range_accepted");
#if VNEG == 1 && !defined(TERM_ONLY)
  V_ASSERT(after == (before || (ghost >= start && ghost < end)), "neg: upper end excluded");
#elif VNEG == 1
  V_ASSERT(g_errors == 1, "neg: a valid range is diagnosed");
#endif
#ifndef TERM_ONLY
  V_ASSERT(after == (before || (ghost >= start && ghost <= end)), "B.exactly_the_range_is_added");
#endif
}
