/* C02: _yr_scan_verify_chained_string_match (libyara/scan.c) for a MIDDLE piece S2 of a
 * split hex string / regexp  S1 <- S2 <- S3  (S2 is chained to S1 and is not the tail).
 * The real function runs with the real _yr_scan_add_match_to_list and
 * _yr_scan_remove_match_from_list.
 *
 * State before the call: S1 has <= 2 unconfirmed matches, S2 has <= 1 earlier unconfirmed
 * match, all offsets/lengths/gaps symbolic (lists ascending, as the list insert keeps
 * them; candidates arrive in ascending offset order, so the new S2 match is not below
 * the earlier one).
 * Contract (from the property: a match is reported iff SOME byte sequence satisfies the
 * pattern, also when the engine splits it and re-joins the pieces):
 *   J  the new S2 match is recorded as unconfirmed iff some S1 match m still in the list
 *      satisfies  gap_min <= offset - end(m) <= gap_max           (join condition)
 *   D  an S1 match is DISCARDED only if it can pair with no S2 match that is still
 *      unconfirmed (the earlier one or the new one) -- discarding a match that an earlier
 *      S2 candidate still needs loses a valid occurrence of the whole pattern
 *   F  S1 matches that stay keep their offset/length; nothing else is touched
 * Route B (list sizes above). Stubs: yr_notebook_alloc (malloc, may fail),
 * yr_get_configuration_uint32, memcpy of the match snippet is the libc one.
 */
#include "vharness.h"
#include <stdlib.h>
#include <string.h>

#include "/repo/libyara/scan.c"

YR_API int yr_get_configuration_uint32(YR_CONFIG_NAME name, uint32_t* dest) { *dest = 4; return ERROR_SUCCESS; }
static int in_alloc_fails;
void* yr_notebook_alloc(YR_NOTEBOOK* notebook, size_t size) { return in_alloc_fails ? NULL : malloc(size); }

#define PAIRS(m_end, gmin, gmax, off) \
  ((int64_t) (m_end) + (gmax) >= (int64_t) (off) && (int64_t) (m_end) + (gmin) <= (int64_t) (off))

void harness(void)
{
  V_IN_ARR(uint16_t, s1_off, 2);
  V_IN_ARR(uint8_t, s1_len, 2);
  V_IN(uint8_t, n1);
  V_IN(uint16_t, u_off); /* earlier unconfirmed S2 match */
  V_IN(uint8_t, n2);
  V_IN(uint16_t, new_off);
  V_IN(uint8_t, new_len);
  V_IN(uint16_t, gap_min);
  V_IN(uint16_t, gap_max);
  V_IN(uint8_t, alloc_fails);

  V_ASSUME(n1 <= 2 && n2 <= 1 && gap_min <= gap_max && gap_max <= 1000);
  V_ASSUME(s1_off[0] < s1_off[1] && s1_len[0] >= 1 && s1_len[1] >= 1 && new_len >= 1 && new_len <= 4);
  V_ASSUME(s1_off[1] <= 2000 && u_off <= 2000 && new_off <= 2000);
  V_ASSUME(n2 == 0 || u_off < new_off); /* ascending arrival */

  static YR_STRING str[3]; /* S1, S2, S3 */
  static YR_MATCHES unconf[3], conf[3];
  static YR_MATCH m1[2], mu_obj;
  YR_MATCH* mu = &mu_obj;
  static YR_SCAN_CONTEXT ctx_obj;
  YR_SCAN_CONTEXT* ctx = &ctx_obj;
  memset(str, 0, sizeof(YR_STRING) * 3);
  memset(unconf, 0, sizeof(YR_MATCHES) * 3);
  memset(conf, 0, sizeof(YR_MATCHES) * 3);
  memset(ctx, 0, sizeof *ctx);
  for (int i = 0; i < 3; i++) str[i].idx = i;
  str[0].flags = STRING_FLAGS_CHAIN_PART;
  str[1].flags = STRING_FLAGS_CHAIN_PART; str[1].chained_to = &str[0];
  str[1].chain_gap_min = gap_min; str[1].chain_gap_max = gap_max;
  str[2].flags = STRING_FLAGS_CHAIN_PART | STRING_FLAGS_CHAIN_TAIL; str[2].chained_to = &str[1];
  for (int i = 0; i < 2; i++)
  {
    memset(&m1[i], 0, sizeof m1[i]);
    m1[i].offset = s1_off[i]; m1[i].match_length = s1_len[i];
  }
  if (n1 >= 1) { unconf[0].head = &m1[0]; unconf[0].tail = &m1[n1 - 1]; unconf[0].count = n1; }
  if (n1 == 2) { m1[0].next = &m1[1]; m1[1].prev = &m1[0]; }
  memset(mu, 0, sizeof *mu);
  mu->offset = u_off; mu->match_length = 1;
  if (n2 == 1) { unconf[1].head = unconf[1].tail = mu; unconf[1].count = 1; }
  ctx->unconfirmed_matches = unconf;
  ctx->matches = conf;
  in_alloc_fails = alloc_fails;
  static const uint8_t data[4] = {1, 2, 3, 4};

  int rc = _yr_scan_verify_chained_string_match(&str[1], ctx, data, 0, new_off, new_len, 0);

  /* which S1 matches are still in the list? */
  int in_list[2] = {0, 0};
  int cnt = 0;
  for (YR_MATCH* m = unconf[0].head; m != NULL && cnt < 3; m = m->next, cnt++)
    for (int i = 0; i < 2; i++) if (m == &m1[i]) in_list[i] = 1;
  V_ASSERT(cnt <= 2 && unconf[0].count == cnt, "F.predecessor_list_consistent");

  int joins = 0;
  for (int i = 0; i < 2; i++)
    if (i < n1)
    {
      uint32_t end = (uint32_t) s1_off[i] + s1_len[i];
      int pairs_new = PAIRS(end, gap_min, gap_max, new_off);
      int pairs_old = n2 == 1 && PAIRS(end, gap_min, gap_max, u_off);
      /* F */
      V_ASSERT(m1[i].offset == s1_off[i] && m1[i].match_length == s1_len[i], "F.predecessor_matches_unchanged");
      /* D */
#if VNEG == 1
      V_ASSERT(in_list[i], "control: a predecessor match is sometimes discarded");
#else
      if (!in_list[i]) V_ASSERT(!pairs_new && !pairs_old, "D.discarded_only_if_no_pending_piece_needs_it");
#endif
      if (pairs_new) joins = 1;
    }
  if (rc == ERROR_INSUFFICIENT_MEMORY)
  {
    V_ASSERT(alloc_fails && joins, "only_documented_error");
    return;
  }
  V_REACH(3);
  V_ASSERT(rc == ERROR_SUCCESS, "success");
  /* J */
  int recorded = 0;
  int c2 = 0;
  for (YR_MATCH* m = unconf[1].head; m != NULL && c2 < 3; m = m->next, c2++)
    if (m != mu) { recorded = 1; V_ASSERT(m->offset == new_off && m->match_length == new_len && m->chain_length == 0, "J.recorded_match_is_the_candidate"); }
  V_ASSERT(recorded == joins, "J.recorded_iff_some_predecessor_is_within_the_gap");
  V_ASSERT(conf[0].head == NULL && conf[1].head == NULL && conf[2].head == NULL, "F.no_confirmed_match_yet");
}
