/* C14: math module (libyara/modules/math/math.c) -- the byte histogram behind count(), mode()
 * and percentage(), and the integer helpers.
 *
 * MSEL 1 get_distribution(offset, length): NULL (undefined) exactly when offset or length is
 *        negative, there is no block, the offset is in no block, or the range crosses a gap
 *        between blocks; otherwise for EVERY byte value v (ghost input) the counter of v is
 *        the number of occurrences of v in [offset, offset+length) clipped to the end of the
 *        contiguous data; the histogram is freed on every undefined path.
 * MSEL 2 count(byte, offset, length): undefined for byte outside 0..255 or an undefined
 *        range, else the number of occurrences; the histogram is always released.
 * MSEL 3 (NOT registered: the 256-iteration arg-max loop over a symbolic histogram does not finish
 *        in CBMC, 600 s) mode(offset, length): the most common byte of the range, the smallest such value on
 *        ties; undefined for an undefined range; the histogram is always released.
 * MSEL 4 in_range / min / max / to_number / abs over full-width arguments (loop-free):
 *        in_range inclusive on both ends; min/max of the arguments as UNSIGNED integers (as
 *        documented); to_number 0 or 1; abs(x) = |x| for x != INT64_MIN.
 * Route B for 1-3 (<= 2 memory blocks of <= BS bytes, optional gap, symbolic offset/length),
 * route P for 4.
 */
#include "vharness.h"
#include <string.h>
#include <stdlib.h>

#ifndef BS
#define BS 3
#endif

#include <yara/mem.h>
static uint32_t hist_store[256];
static int g_live, in_calloc_fails, g_callocs;
void* yr_calloc(size_t count, size_t size)
{
  g_callocs++;
  if (in_calloc_fails || g_callocs > 1) return NULL; /* one histogram per call of the functions under test */
  g_live++; /* hist_store is zero: static storage, handed out once */
  return hist_store;
}
void yr_free(void* p) { if (p != NULL) g_live--; }

#include "/repo/libyara/modules/math/math.c"

static int64_t g_int_result; static double g_float_result; static int g_results;
int yr_object_set_integer(int64_t value, YR_OBJECT* object, const char* field, ...) { g_int_result = value; g_results++; return ERROR_SUCCESS; }
int yr_object_set_float(double value, YR_OBJECT* object, const char* field, ...) { g_float_result = value; g_results++; return ERROR_SUCCESS; }
const uint8_t* yr_fetch_block_data(YR_MEMORY_BLOCK* block) { return block->fetch_data(block); }

static uint8_t data0[BS], data1[BS];
static YR_MEMORY_BLOCK blk[2];
static int in_nblocks, g_it;
static YR_MEMORY_BLOCK* it_first(YR_MEMORY_BLOCK_ITERATOR* it) { g_it = 0; return in_nblocks > 0 ? &blk[0] : NULL; }
static YR_MEMORY_BLOCK* it_next(YR_MEMORY_BLOCK_ITERATOR* it) { g_it++; return g_it < in_nblocks ? &blk[g_it] : NULL; }
static const uint8_t* fetch0(YR_MEMORY_BLOCK* b) { return data0; }
static const uint8_t* fetch1(YR_MEMORY_BLOCK* b) { return data1; }

static YR_MEMORY_BLOCK_ITERATOR it;
static YR_SCAN_CONTEXT ctx;
static YR_OBJECT ret_obj;

/* occurrences of v in the documented range; -1 = undefined. kf = the zero-length range at the
 * first byte of a block that directly follows another block (known finding KF1, see C14 hash) */
static int spec_count(int64_t offset, int64_t length, int nblocks, int s0, int s1, int gap, uint8_t v, int* kf)
{
  *kf = 0;
  if (offset < 0 || length < 0 || nblocks == 0 || (uint64_t) offset < blk[0].base) return -1;
  int first = -1;
  for (int i = 0; i < 2; i++)
    if (i < nblocks && first < 0 && (uint64_t) offset >= blk[i].base && (uint64_t) offset < blk[i].base + blk[i].size) first = i;
  if (first < 0) return -1;
  if (length == 0 && first == 1 && (uint64_t) offset == blk[0].base + blk[0].size) { *kf = 1; return 0; }
  uint64_t avail0 = blk[first].base + blk[first].size - (uint64_t) offset;
  int crosses = (uint64_t) length > avail0 && first == 0 && nblocks == 2;
  if (crosses && gap > 0) return -1;
  int n = 0;
  uint64_t want = (uint64_t) length < avail0 ? (uint64_t) length : avail0;
  const uint8_t* d = first == 0 ? data0 : data1;
  uint64_t o = (uint64_t) offset - blk[first].base;
  for (int i = 0; i < BS; i++)
    if ((uint64_t) i >= o && (uint64_t) i < o + want && d[i] == v) n++;
  if (crosses)
  {
    uint64_t rest = (uint64_t) length - avail0;
    for (int i = 0; i < BS; i++)
      if (i < s1 && (uint64_t) i < rest && data1[i] == v) n++;
  }
  return n;
}

void harness(void)
{
  V_IN(int64_t, offset);
  V_IN(int64_t, length);
  V_IN(int64_t, byte);
  V_IN(uint8_t, nblocks);
  V_IN(uint8_t, s0);
  V_IN(uint8_t, s1);
  V_IN(uint8_t, base0);
  V_IN(uint8_t, gap);
  V_IN(uint8_t, ghost_v);
  V_IN(uint8_t, calloc_fails);
  V_IN_ARR(uint8_t, d0, BS);
  V_IN_ARR(uint8_t, d1, BS);
  V_IN(int64_t, a1);
  V_IN(int64_t, a2);
  V_IN(int64_t, a3);

  V_ASSUME(nblocks <= 2 && s0 >= 1 && s0 <= BS && s1 >= 1 && s1 <= BS && base0 <= 3 && gap <= 2);
  for (int i = 0; i < BS; i++) { data0[i] = d0[i]; data1[i] = d1[i]; }
  blk[0].base = base0; blk[0].size = s0; blk[0].fetch_data = fetch0;
  blk[1].base = (uint64_t) base0 + s0 + gap; blk[1].size = s1; blk[1].fetch_data = fetch1;
  in_nblocks = nblocks; in_calloc_fails = calloc_fails != 0;
  it.first = it_first; it.next = it_next;
  ctx.iterator = &it;
  YR_OBJECT_FUNCTION* fobj = malloc(sizeof(YR_OBJECT_FUNCTION));
  V_ASSUME(fobj != NULL);
  fobj->return_obj = &ret_obj;
  g_live = g_callocs = g_results = 0;
  int kf;

#if MSEL == 1
  uint32_t* h = get_distribution(offset, length, &ctx);
  int want = spec_count(offset, length, nblocks, s0, s1, gap, ghost_v, &kf);
  if (calloc_fails) { V_ASSERT(h == NULL && g_live == 0, "A.allocation_failure_is_undefined_not_a_crash"); return; }
  if (kf) { V_ASSERT(h != NULL, "KF1.zero_length_range_at_start_of_second_block"); return; }
  if (want < 0)
  {
    V_REACH(3);
    V_ASSERT(h == NULL, "U.undefined_range_yields_no_histogram");
    V_ASSERT(g_live == 0, "U.histogram_released_on_undefined");
    return;
  }
  V_REACH(4);
  V_ASSERT(h != NULL && g_live == 1, "D.defined_range_yields_a_histogram");
#if VNEG == 1
  V_ASSERT(h[ghost_v] == (uint32_t) want + (length > 1), "neg");
#endif
  V_ASSERT(h[ghost_v] == (uint32_t) want, "D.counter_of_every_byte_value_is_its_number_of_occurrences");
#elif MSEL == 2
  ret_obj.type = OBJECT_TYPE_INTEGER;
  YR_VALUE args[3];
  args[0].i = byte; args[1].i = offset; args[2].i = length;
  int rc = count_range(args, &ctx, fobj);
  V_ASSERT(rc == ERROR_SUCCESS && g_results == 1, "one_result");
  V_ASSERT(g_live == 0, "histogram_released");
  if (byte < 0 || byte > 255) { V_REACH(3); V_ASSERT(g_int_result == YR_UNDEFINED && g_callocs == 0, "U.byte_out_of_range_is_undefined"); return; }
  int want = spec_count(offset, length, nblocks, s0, s1, gap, (uint8_t) byte, &kf);
  if (calloc_fails) { V_ASSERT(g_int_result == YR_UNDEFINED, "A.allocation_failure_is_undefined"); return; }
  if (kf) { V_ASSERT(g_int_result == 0, "KF1.zero_length_range_at_start_of_second_block"); return; }
  V_REACH(4);
#if VNEG == 1
  V_ASSERT(g_int_result == (want < 0 ? YR_UNDEFINED : want + (length > 1)), "neg");
#endif
  V_ASSERT(g_int_result == (want < 0 ? YR_UNDEFINED : want), "count_is_number_of_occurrences_or_undefined");
#elif MSEL == 3
  ret_obj.type = OBJECT_TYPE_INTEGER;
  YR_VALUE args[2];
  args[0].i = offset; args[1].i = length;
  int rc = mode_range(args, &ctx, fobj);
  V_ASSERT(rc == ERROR_SUCCESS && g_results == 1, "one_result");
  V_ASSERT(g_live == 0, "histogram_released");
  int cv = spec_count(offset, length, nblocks, s0, s1, gap, ghost_v, &kf);
  if (calloc_fails) { V_ASSERT(g_int_result == YR_UNDEFINED, "A.allocation_failure_is_undefined"); return; }
  if (kf) { V_ASSERT(g_int_result == 0, "KF1.zero_length_range_at_start_of_second_block"); return; }
  if (cv < 0) { V_REACH(3); V_ASSERT(g_int_result == YR_UNDEFINED, "U.undefined_range"); return; }
  V_REACH(4);
  V_ASSERT(g_int_result >= 0 && g_int_result <= 255, "mode_is_a_byte_value");
  int cm = spec_count(offset, length, nblocks, s0, s1, gap, (uint8_t) g_int_result, &kf);
#if VNEG == 1
  V_ASSERT(cv < cm, "neg");
#endif
  V_ASSERT(cv <= cm, "no_byte_value_occurs_more_often_than_the_mode");
  V_ASSERT(cv < cm || ghost_v >= g_int_result, "ties_resolve_to_the_smallest_byte_value");
#else
  YR_VALUE args[3];
  ret_obj.type = OBJECT_TYPE_INTEGER;
  args[0].i = a1; args[1].i = a2; args[2].i = a3;
  V_ASSERT(min(args, &ctx, fobj) == ERROR_SUCCESS && g_results == 1, "min.result");
  V_ASSERT((uint64_t) g_int_result == ((uint64_t) a1 < (uint64_t) a2 ? (uint64_t) a1 : (uint64_t) a2), "min.unsigned_minimum");
  V_ASSERT(max(args, &ctx, fobj) == ERROR_SUCCESS && g_results == 2, "max.result");
#if VNEG == 1
  V_ASSERT(g_int_result == (a1 > a2 ? a1 : a2), "neg: signed maximum");
#endif
  V_ASSERT((uint64_t) g_int_result == ((uint64_t) a1 > (uint64_t) a2 ? (uint64_t) a1 : (uint64_t) a2), "max.unsigned_maximum");
  V_ASSERT(to_number(args, &ctx, fobj) == ERROR_SUCCESS && g_int_result == (a1 != 0), "to_number.zero_or_one");
  if (a1 != INT64_MIN)
  {
    V_ASSERT(yr_math_abs(args, &ctx, fobj) == ERROR_SUCCESS && g_int_result == (a1 < 0 ? -a1 : a1), "abs.absolute_value");
  }
  {
    double t, lo, hi;
    memcpy(&t, &a1, 8); memcpy(&lo, &a2, 8); memcpy(&hi, &a3, 8);
    args[0].d = t; args[1].d = lo; args[2].d = hi;
    V_ASSERT(in_range(args, &ctx, fobj) == ERROR_SUCCESS, "in_range.result");
#if VNEG == 2
    V_ASSERT(g_int_result == ((lo < t && t <= hi) ? 1 : 0), "neg: exclusive lower end");
#endif
    V_ASSERT(g_int_result == ((lo <= t && t <= hi) ? 1 : 0), "in_range.inclusive_both_ends");
  }
#endif
}
