/* C01: the six candidate comparison functions of libyara/scan.c.
 *
 *   -DFN=<function> -DVARIANT=<1..6>
 *   VMODE_CONTRACT : code contract attached to the real static function by
 *                    forward declaration; enforced with goto-instrument --dfcc,
 *                    loop contract is the in-place YR_VERIF_LOOP annotation.
 *   VMODE_PLAIN    : same postcondition as an executable predicate on bounded
 *                    buffers (witness search + native replay).
 *
 * Preconditions (derived from the only call site, _yr_scan_verify_literal_match
 * via yr_scan_verify_match):
 *   data_size >= 1            yr_scan_verify_match returns early when
 *                             data_size - offset == 0
 *   1 <= string_length        YR_STRING.length is uint32_t, the compiler rejects
 *        <= 0x3fffffff        empty strings, literals come from the 8 KiB lexer
 *                             buffer (base64 expansion < 2x); the bound only
 *                             keeps (int)(2*len) representable.
 * Postcondition (from the property text): the function returns the matched
 * length (len, or 2*len for the wide forms) iff the buffer is long enough and
 * holds the string under the variant's documented semantics, else 0.
 */
#ifdef VMODE_CONTRACT
#define VSPEC_CONTRACT
#endif
#include "vspec.h"
#include "vharness.h"

#define V_MAXLEN 0x3fffffffu

#if defined(VMODE_CONTRACT) || defined(VNATIVE)
extern uint8_t yr_lowercase[256];
#else
/* the table yr_initialize() builds (proved in C01.libyara.casetables) */
#define LC(i) ((i) >= 'A' && (i) <= 'Z' ? (i) + 32 : (i))
#define LC4(i) LC(i), LC(i + 1), LC(i + 2), LC(i + 3)
#define LC16(i) LC4(i), LC4(i + 4), LC4(i + 8), LC4(i + 12)
#define LC64(i) LC16(i), LC16(i + 16), LC16(i + 32), LC16(i + 48)
uint8_t yr_lowercase[256] = {LC64(0), LC64(64), LC64(128), LC64(192)};
#endif

/* variant semantics: byte k of the string is present at data */
#define M_compare(d, s, n, K) FORALL(size_t, q1, 0, n, (d)[q1] == (s)[q1])
#define M_icompare(d, s, n, K) \
  FORALL(size_t, q2, 0, n, yr_lowercase[(d)[q2]] == yr_lowercase[(s)[q2]])
#define M_wcompare(d, s, n, K) \
  FORALL(size_t, q3, 0, n, (d)[2 * q3] == (s)[q3] && (d)[2 * q3 + 1] == 0)
#define M_wicompare(d, s, n, K)                                        \
  FORALL(size_t, q4, 0, n,                                             \
         yr_lowercase[(d)[2 * q4]] == yr_lowercase[(s)[q4]] &&         \
             (d)[2 * q4 + 1] == 0)
#define M_xor_compare(d, s, n, K) \
  FORALL(size_t, q5, 0, n, (d)[q5] == (uint8_t) ((s)[q5] ^ (K)))
#define M_xor_wcompare(d, s, n, K)                                     \
  FORALL(size_t, q6, 0, n,                                             \
         (d)[2 * q6] == (uint8_t) ((s)[q6] ^ (K)) && (d)[2 * q6 + 1] == (K))

#if VARIANT == 1
#define FN _yr_scan_compare
#define MATCHES M_compare
#define WIDTH 1
#elif VARIANT == 2
#define FN _yr_scan_icompare
#define MATCHES M_icompare
#define WIDTH 1
#elif VARIANT == 3
#define FN _yr_scan_wcompare
#define MATCHES M_wcompare
#define WIDTH 2
#elif VARIANT == 4
#define FN _yr_scan_wicompare
#define MATCHES M_wicompare
#define WIDTH 2
#elif VARIANT == 5
#define FN _yr_scan_xor_compare
#define MATCHES M_xor_compare
#define WIDTH 1
#define XOR 1
#elif VARIANT == 6
#define FN _yr_scan_xor_wcompare
#define MATCHES M_xor_wcompare
#define WIDTH 2
#define XOR 1
#else
#error VARIANT
#endif

/* negative controls: deliberately wrong postconditions that MUST fail */
#if VNEG == 1
#define EXPECTED_LEN(n) ((int) (WIDTH * (n)) + 1) /* off by one */
#else
#define EXPECTED_LEN(n) ((int) (WIDTH * (n)))
#endif
#if VNEG == 2
#define SIZE_OK(sz, n) ((sz) > WIDTH * (n)) /* last-byte match lost */
#else
#define SIZE_OK(sz, n) ((sz) >= WIDTH * (n))
#endif

#define KEY(d, s) ((uint8_t) ((d)[0] ^ (s)[0]))

#define POST_RET(R, d, sz, s, n) \
  ((R) == ((SIZE_OK(sz, n) && MATCHES(d, s, n, KEY(d, s))) ? EXPECTED_LEN(n) : 0))

#ifdef VMODE_CONTRACT
/* ------------------------------------------------------------------ */
#ifndef XOR
static int FN(
    const uint8_t* data,
    size_t data_size,
    uint8_t* string,
    size_t string_length)
    /* clang-format off */
__CPROVER_requires(data_size >= 1 && data_size <= (size_t) 1 << 40)
__CPROVER_requires(string_length >= 1 && string_length <= V_MAXLEN)
__CPROVER_requires(__CPROVER_is_fresh(data, data_size))
__CPROVER_requires(__CPROVER_is_fresh(string, string_length))
__CPROVER_assigns()
__CPROVER_ensures(POST_RET(__CPROVER_return_value, data, data_size, string, string_length))
    /* clang-format on */
    ;
#else
static int FN(
    const uint8_t* data,
    size_t data_size,
    uint8_t* string,
    size_t string_length,
    uint8_t* xor_key)
    /* clang-format off */
__CPROVER_requires(data_size >= 1 && data_size <= (size_t) 1 << 40)
__CPROVER_requires(string_length >= 1 && string_length <= V_MAXLEN)
__CPROVER_requires(__CPROVER_is_fresh(data, data_size))
__CPROVER_requires(__CPROVER_is_fresh(string, string_length))
__CPROVER_requires(__CPROVER_is_fresh(xor_key, 1))
__CPROVER_assigns(*xor_key)
__CPROVER_ensures(POST_RET(__CPROVER_return_value, data, data_size, string, string_length))
#if VNEG == 3
__CPROVER_ensures(*xor_key == __CPROVER_old(*xor_key)) /* wrong: key never reported */
#else
__CPROVER_ensures(__CPROVER_return_value != 0 ==> *xor_key == KEY(data, string))
__CPROVER_ensures(__CPROVER_return_value == 0 ==> *xor_key == __CPROVER_old(*xor_key))
#endif
    /* clang-format on */
    ;
#endif
#endif

#include "/repo/libyara/scan.c"

#ifdef VMODE_CONTRACT
void harness(void)
{
  const uint8_t* data;
  size_t data_size;
  uint8_t* string;
  size_t string_length;
#ifndef XOR
  FN(data, data_size, string, string_length);
#else
  uint8_t* xor_key;
  FN(data, data_size, string, string_length, xor_key);
#endif
}
#else
/* ------------------------------------------------------------------ */
/* plain / native: bounded buffers, exact-size heap copies so that an
 * over-read is an out-of-bounds access (CBMC pointer check / ASan). */
#include <stdlib.h>
#include <string.h>
#ifndef DATA_MAX
#define DATA_MAX 8
#define STR_MAX 4
#endif
void harness(void)
{
  V_IN_ARR(uint8_t, in_data, DATA_MAX);
  V_IN_ARR(uint8_t, in_string, STR_MAX);
  V_IN(size_t, data_size);
  V_IN(size_t, string_length);
  V_IN(uint8_t, key0);
#ifdef VNATIVE
  for (int i = 0; i < 256; i++)
    yr_lowercase[i] = (i >= 'A' && i <= 'Z') ? i + 32 : i;
#endif
  V_ASSUME(data_size >= 1 && data_size <= DATA_MAX);
  V_ASSUME(string_length >= 1 && string_length <= STR_MAX);
  uint8_t* data = malloc(data_size);
  uint8_t* string = malloc(string_length);
  V_ASSUME(data != NULL && string != NULL);
  memcpy(data, in_data, data_size);
  memcpy(string, in_string, string_length);
  uint8_t key = key0;
#ifndef XOR
  int r = FN(data, data_size, string, string_length);
#else
  int r = FN(data, data_size, string, string_length, &key);
#endif
  V_ASSERT(POST_RET(r, data, data_size, string, string_length), "postcondition.return");
#ifdef XOR
  V_ASSERT(IMPLIES(r != 0, key == KEY(data, string)), "postcondition.key");
  V_ASSERT(IMPLIES(r == 0, key == key0), "postcondition.key_untouched");
#endif
  V_ASSERT(memcmp(data, in_data, data_size) == 0, "frame.data");
  V_ASSERT(memcmp(string, in_string, string_length) == 0, "frame.string");
  free(data);
  free(string);
}
#endif
