/* C06: pe_rva_to_offset and pe_get_directory_entry (libyara/modules/pe/pe_utils.c) -- every
 * RVA the pe/dotnet parsers follow goes through pe_rva_to_offset, and its contract is what
 * C06.pe.parse_exports assumes:
 *   result == -1  or  0 <= result < data_size          (an offset inside the file)
 *   no read outside the data for ANY section table content and any RVA
 * pe_get_directory_entry: NULL or an 8-byte entry completely inside the data.
 * Precondition = postcondition of pe_get_header (proved in C06.pe.get_header): pe->header
 * points into the data with signature, file header and optional header inside.
 * Route B: data of exactly DSIZE bytes (all symbolic); the section loop is bounded by the
 * number of 40-byte section headers that fit (the code returns -1 at the first one that
 * does not).
 */
#include "vharness.h"
#include <string.h>
#include <stdlib.h>

#include "/repo/libyara/modules/pe/pe_utils.c"

#ifndef DSIZE
#define DSIZE 336
#endif
static uint8_t data[DSIZE];
static PE g_pe;

void harness(void)
{
  V_IN_ARR(uint8_t, bytes, DSIZE);
  V_IN(uint16_t, hdr_off);
  V_IN(uint64_t, rva);
  V_IN(int, entry);
  for (int i = 0; i < DSIZE; i++) data[i] = bytes[i];
  memset(&g_pe, 0, sizeof g_pe);
  g_pe.data = data; g_pe.data_size = DSIZE;
  PIMAGE_NT_HEADERS32 h = (PIMAGE_NT_HEADERS32) (data + hdr_off);
  /* postcondition of pe_get_header */
  V_ASSUME((size_t) hdr_off + sizeof(DWORD) + sizeof(IMAGE_FILE_HEADER) + sizeof(IMAGE_OPTIONAL_HEADER32) <= DSIZE);
  V_ASSUME(h->OptionalHeader.Magic != IMAGE_NT_OPTIONAL_HDR64_MAGIC ||
           (size_t) hdr_off + sizeof(DWORD) + sizeof(IMAGE_FILE_HEADER) + sizeof(IMAGE_OPTIONAL_HEADER64) <= DSIZE);
  /* the PE struct keeps the header pointer in a union {header, header64}; CBMC keeps the
   * provenance of a pointer read through the OTHER union member only when it was stored
   * through the wider member */
  /* the section table starts at header + 24 + SizeOfOptionalHeader (16-bit field from the
   * file): when that lies beyond the data, fits_in_pe() compares an out-of-object pointer
   * with the data bounds -- meaningful only in a flat address space, rejected by CBMC.
   * The harness keeps the table start inside the data (or one past its end). */
  V_ASSUME((size_t) hdr_off + sizeof(DWORD) + sizeof(IMAGE_FILE_HEADER) + h->FileHeader.SizeOfOptionalHeader <= DSIZE);
  g_pe.header64 = (PIMAGE_NT_HEADERS64) h;
  /* The OptionalHeader()/IS_64BITS_PE() macros read the Magic through the 64-bit header
   * layout (264 bytes) even for a 32-bit header (248 bytes). When the 32-bit header ends
   * within 16 bytes of the end of the data that is an access through a struct pointer whose
   * extent exceeds the object -- only the in-bounds Magic field is actually read. CBMC
   * rejects it and marks the rest UNKNOWN, so the harness keeps room for the wider layout
   * (stated under assumptions). */
  V_ASSUME((size_t) hdr_off + sizeof(IMAGE_NT_HEADERS64) <= DSIZE);
#if WHICH == 1
  int64_t r = pe_rva_to_offset(&g_pe, rva);
  V_REACH(3);
#if VNEG == 1
  V_ASSERT(r == -1, "neg");
#endif
  V_ASSERT(r == -1 || (r >= 0 && (uint64_t) r < DSIZE), "result_is_minus_one_or_an_offset_inside_the_file");
#else
  V_ASSUME(entry >= 0 && entry < 16);
  PIMAGE_DATA_DIRECTORY d = pe_get_directory_entry(&g_pe, entry);
  V_REACH(3);
#if VNEG == 1
  V_ASSERT(d == NULL, "neg");
#endif
  V_ASSERT(d == NULL || ((uintptr_t) d >= (uintptr_t) data && (uintptr_t) d + sizeof(IMAGE_DATA_DIRECTORY) <= (uintptr_t) data + DSIZE),
           "directory_entry_lies_inside_the_file");
#endif
}
