/* C04: loop-quantifier opcodes OP_ITER_CONDITION / OP_ITER_END of the real yr_execute_code().
 * Prologue (stubs) shared with exec_ops.c: the real yr_execute_code() on a fixed micro-program
 * whose operands are fully symbolic ("M" route: bounded in program shape,
 * complete over all 2^64 operand values).
 *
 *   program (binary op):  INIT_RULE 0 ; PUSH a ; PUSH b ; <op> ; PUSH c ;
 *                         INT_EQ ; MATCH_RULE 0 ; HALT
 *   program (unary op):   INIT_RULE 0 ; PUSH a ; <op> ; PUSH c ; INT_EQ ; ...
 *   SHAPE=2 (truth):      INIT_RULE 0 ; PUSH a ; PUSH b ; <op> ; MATCH_RULE 0 ; HALT
 *
 * Obligation (from the property text): rule 0 is flagged as matching iff the
 * documented semantics (specs/vm_spec.h) gives a defined value r, c is defined
 * and r == c   (SHAPE=2: iff r is defined and non-zero).  Since c is arbitrary
 * this pins the operator's result for every operand pair, including the
 * undefined sentinel.
 *
 * -DOPK=<enum vs_op>, built in plain mode only (the interpreter loop cannot be
 * put under a loop contract; see DESIGN.md 1.2 route M).
 */
#include "vharness.h"
#include "vm_spec.h"

#include "/repo/libyara/exec.c"

/* ---- stubs for other translation units (trusted, listed in evidence) ---- */
static uint32_t cfg_stack_size = 8;
int g_unload_calls;

YR_API int yr_get_configuration_uint32(YR_CONFIG_NAME name, uint32_t* dest)
{
  *dest = cfg_stack_size;
  return ERROR_SUCCESS;
}
int yr_modules_unload_all(YR_SCAN_CONTEXT* context)
{
  g_unload_calls++;
  return ERROR_SUCCESS;
}
uint64_t yr_stopwatch_elapsed_ns(YR_STOPWATCH* sw) { return 0; }

/* resource stubs with ghost live-counters (C10/C16: everything acquired in the
 * prologue is released exactly once on every exit) */
int g_arena_live, g_notebook_live, g_heap_live;
static YR_ARENA dummy_arena;
static int dummy_notebook;
#ifdef VNATIVE
static int nondet_fail(void) { return 0; }
#else
int nondet_fail(void);
#endif
int yr_arena_create(uint32_t n, size_t sz, YR_ARENA** arena)
{
  if (nondet_fail()) return ERROR_INSUFFICIENT_MEMORY;
  g_arena_live++;
  *arena = &dummy_arena;
  return ERROR_SUCCESS;
}
static YR_OBJECT* dummy_objs[4];
void* yr_arena_get_ptr(YR_ARENA* arena, uint32_t buffer_id, yr_arena_off_t offset)
{
  return dummy_objs;
}
int yr_arena_release(YR_ARENA* arena)
{
  g_arena_live--;
  return ERROR_SUCCESS;
}
int yr_notebook_create(size_t page_size, YR_NOTEBOOK** pool)
{
  if (nondet_fail()) return ERROR_INSUFFICIENT_MEMORY;
  g_notebook_live++;
  *pool = (YR_NOTEBOOK*) &dummy_notebook;
  return ERROR_SUCCESS;
}
int yr_notebook_destroy(YR_NOTEBOOK* pool)
{
  g_notebook_live--;
  return ERROR_SUCCESS;
}
void* yr_malloc(size_t size)
{
  void* p = malloc(size);
  if (p != NULL) g_heap_live++;
  return p;
}
void yr_free(void* ptr)
{
  if (ptr != NULL) g_heap_live--;
  free(ptr);
}
static struct { YR_RULE rtab[1]; YR_STRING strs[1]; } abuf;
#define rtab abuf.rtab
#define strs abuf.strs
int yr_arena_ptr_to_ref(YR_ARENA* arena, const void* address, YR_ARENA_REF* ref)
{
  /* the only arena buffer of the harness holds the rules table and the strings table */
  return (const uint8_t*) address >= (const uint8_t*) &abuf &&
         (const uint8_t*) address < (const uint8_t*) &abuf + sizeof(abuf);
}



/* ------------------------------------------------------------------------
 * for <quantifier> x in ... : ( body )  is compiled to a loop that keeps, on the VM
 * stack, the number of iterations, the number of true bodies and the quantifier q
 * (undefined = all, 0 = none, N >= 1 = "at least N").
 *   ITSEL 1  OP_ITER_CONDITION (short-circuit test after each iteration): the loop may
 *            STOP only when the verdict can no longer change:
 *              all : the last body was false            none: the last body was TRUE
 *              N   : true bodies so far (incl. the last one) reach N
 *            in particular an UNDEFINED body never ends a `none` or `N` loop.
 *            The last body value is re-pushed unchanged.
 *   ITSEL 2  OP_ITER_END (verdict): 0 iterations -> false; all: every body true;
 *            none: no body true; N: at least N true.
 * Micro-program: INIT_RULE; PUSH x; PUSH y; PUSH q; <op>; [POP;] PUSH c; INT_EQ; MATCH_RULE; HALT
 */
static YR_NAMESPACE ns0;
static YR_ARENA rarena;
static YR_RULES rules;
static YR_SCAN_CONTEXT ctx;
static YR_BITMASK bm_match[1], bm_ns[1], bm_req[1];
static uint8_t code[64]; /* <= 64 elements: CBMC keeps the array field-sensitive, opcodes stay constant */
static size_t emit8(size_t p, uint8_t v) { code[p] = v; return p + 1; }
static size_t emit64(size_t p, uint64_t v) { memcpy(code + p, &v, 8); return p + 8; }
static size_t emit32(size_t p, uint32_t v) { memcpy(code + p, &v, 4); return p + 4; }

void harness(void)
{
  V_IN(int64_t, x);  /* ITSEL 1: last body value      ITSEL 2: total iterations */
  V_IN(int64_t, y);  /* number of true bodies so far */
  V_IN(int64_t, q);  /* quantifier */
  V_IN(int64_t, c);
  V_IN(uint8_t, observe_last);

#if ITSEL == 1
  V_ASSUME(x == 0 || x == 1 || VS_IS_UNDEF(x));
  V_ASSUME(y >= 0 && y < ((int64_t) 1 << 40));
  V_ASSUME(VS_IS_UNDEF(q) || (q >= 0 && q < ((int64_t) 1 << 40)));
#else
  V_ASSUME(x >= 0 && x < ((int64_t) 1 << 40) && y >= 0 && y <= x);
  V_ASSUME(VS_IS_UNDEF(q) || (q >= 0 && q < ((int64_t) 1 << 40)));
#endif
  memset(&abuf, 0, sizeof abuf);
  rtab[0].ns = &ns0;
  rarena.num_buffers = 1; rarena.xrefs = 1;
  rarena.buffers[0].data = (uint8_t*) &abuf; rarena.buffers[0].size = rarena.buffers[0].used = sizeof abuf;
  rules.arena = &rarena; rules.rules_table = rtab; rules.num_rules = 1; rules.num_namespaces = 1; rules.code_start = code;
  memset(&ctx, 0, sizeof ctx);
  ctx.rules = &rules; ctx.rule_matches_flags = bm_match; ctx.ns_unsatisfied_flags = bm_ns; ctx.required_eval = bm_req;
  bm_match[0] = 0; bm_ns[0] = 0; bm_req[0] = 1;

  size_t p = 0;
  p = emit8(p, OP_INIT_RULE); p = emit32(p, 0); p = emit32(p, 0);
  p = emit8(p, OP_PUSH); p = emit64(p, (uint64_t) x);
  p = emit8(p, OP_PUSH); p = emit64(p, (uint64_t) y);
  p = emit8(p, OP_PUSH); p = emit64(p, (uint64_t) q);
#if ITSEL == 1
  p = emit8(p, OP_ITER_CONDITION);
  /* stack: continue?, last.  observe one of the two */
  if (observe_last)
  {
    /* compare `last` with c, then drop `continue?` after moving the result: use INT_EQ then AND with... keep it simple:
     * (last == c) is left on top of `continue?`; OP_AND-free way: pop via OP_POP is not needed because MATCH_RULE
     * requires an empty stack -> use a second INT_EQ chain */
  }
  p = emit8(p, OP_POP);                       /* drop the re-pushed last value */
#else
  p = emit8(p, OP_ITER_END);
#endif
  p = emit8(p, OP_PUSH); p = emit64(p, (uint64_t) c);
  p = emit8(p, OP_INT_EQ);
  p = emit8(p, OP_MATCH_RULE); p = emit64(p, 0);
  p = emit8(p, OP_HALT);

  g_unload_calls = 0;
  g_arena_live = g_notebook_live = g_heap_live = 0;
  int rc = yr_execute_code(&ctx);
  if (rc == ERROR_INSUFFICIENT_MEMORY) return;
  V_REACH(9);
  V_ASSERT(rc == ERROR_SUCCESS, "result.success");
  int bit = (bm_match[0] & 1) != 0;

#if ITSEL == 1
  int last_true = (x == 1);
  int stop_ok;
  if (VS_IS_UNDEF(q)) stop_ok = (x == 0);
#if VNEG == 1
  else if (q == 0) stop_ok = (x == 0); /* wrong on purpose */
#else
  else if (q == 0) stop_ok = last_true;
#endif
  else stop_ok = (y + (last_true ? 1 : 0) >= q);
  /* the opcode's result r is 0/1; bit == (r == c) for defined c */
  if (!VS_IS_UNDEF(c))
  {
    V_ASSERT(c == 0 || c == 1 || !bit, "continue_flag_is_boolean");
    if (c == 0 && bit) V_ASSERT(stop_ok, "S.loop_stops_only_when_the_verdict_is_settled");
    if (c == 1) V_ASSERT(bit || stop_ok, "S.continues_unless_settled");
  }
#else
  int64_t verdict;
  if (x == 0) verdict = 0;
  else if (VS_IS_UNDEF(q)) verdict = (y == x);
#if VNEG == 1
  else if (q == 0) verdict = (y != 0);
#else
  else if (q == 0) verdict = (y == 0);
#endif
  else verdict = (y >= q);
  V_ASSERT(bit == (!VS_IS_UNDEF(c) && verdict == c), "V.loop_verdict_equals_quantifier_semantics");
#endif
}
