/* C16 / C20 / C10: yr_scanner_create + yr_scanner_destroy (libyara/scanner.c) under EVERY
 * pattern of allocation failures (CBMC's malloc/calloc may fail independently at
 * each call; the stubs for the hash table and the external-variable objects may
 * fail as well).
 *
 *   success  => the six per-scan arrays exist (exactly what _yr_scanner_clean_matches and
 *               the scan dereference; list arrays may be absent only for 0 strings),
 *               default report flags, entry point / file size undefined, one object per
 *               external variable registered in THIS scanner's table
 *   failure  => an error code is returned, *scanner is not assigned, and everything that
 *               was allocated has been released (ghost live counters are zero)
 *   destroy after success releases everything
 * Route B only in the number of external variables (<= 2); rule/string/namespace counts
 * are symbolic up to 200.
 */
#include "vharness.h"
#include <stdlib.h>
#include <string.h>

#include "/repo/libyara/scanner.c"

static int g_live, g_tables, g_objs, g_added;
/* failure injection driven by an INPUT bit mask (bit k: the k-th fallible
 * operation fails), so that a counterexample replays natively; CBMC's own
 * "malloc may fail" is switched off for this target (--no-malloc-may-fail) */
static uint32_t in_fail_mask; static int g_op;
#define MAYFAIL() ((in_fail_mask >> (g_op++ & 31)) & 1)
void* yr_calloc(size_t n, size_t s) { if (MAYFAIL()) return NULL; void* p = calloc(n, s); if (p) g_live++; return p; }
void* yr_malloc(size_t s) { if (MAYFAIL()) return NULL; void* p = malloc(s); if (p) g_live++; return p; }
void yr_free(void* p) { if (p) g_live--; free(p); }
int rand(void) { return 7; }
static int dummy_table;
int yr_hash_table_create(int size, YR_HASH_TABLE** table)
{
  if (MAYFAIL()) return ERROR_INSUFFICIENT_MEMORY;
  g_tables++;
  *table = (YR_HASH_TABLE*) &dummy_table;
  return ERROR_SUCCESS;
}
int yr_hash_table_add(YR_HASH_TABLE* table, const char* key, const char* ns, void* value)
{
  if (MAYFAIL()) return ERROR_INSUFFICIENT_MEMORY;
  g_added++;
  return ERROR_SUCCESS;
}
void yr_hash_table_destroy(YR_HASH_TABLE* table, YR_HASH_TABLE_FREE_VALUE_FUNC free_value)
{
  g_tables--;
  g_objs -= g_added; /* the table owns the objects added to it and destroys them */
  g_added = 0;
}
static YR_OBJECT dummy_obj;
int yr_object_from_external_variable(YR_EXTERNAL_VARIABLE* external, YR_OBJECT** object)
{
  if (MAYFAIL()) return ERROR_INSUFFICIENT_MEMORY;
  g_objs++;
  *object = &dummy_obj;
  return ERROR_SUCCESS;
}
void yr_object_destroy(YR_OBJECT* object) { g_objs--; }
void yr_object_set_canary(YR_OBJECT* object, int canary) {}

#define NEXT 2

void harness(void)
{
  V_IN(uint32_t, num_rules);
  V_IN(uint32_t, num_strings);
  V_IN(uint32_t, num_namespaces);
  V_IN(uint8_t, n_ext);
  V_IN(uint32_t, fail_mask);
  in_fail_mask = fail_mask; g_op = 0;
  static YR_RULES rules;
  static YR_EXTERNAL_VARIABLE ext[NEXT + 1];
  V_ASSUME(num_rules <= 200 && num_strings <= 200 && num_namespaces <= 200 && n_ext <= NEXT);
  rules.num_rules = num_rules; rules.num_strings = num_strings; rules.num_namespaces = num_namespaces;
  for (int i = 0; i <= NEXT; i++)
  {
    ext[i].type = i < n_ext ? EXTERNAL_VARIABLE_TYPE_INTEGER : EXTERNAL_VARIABLE_TYPE_NULL;
    ext[i].identifier = "v";
  }
  rules.ext_vars_table = ext;
  g_live = g_tables = g_objs = g_added = 0;
  YR_SCANNER* sentinel = (YR_SCANNER*) &g_live;
  YR_SCANNER* sc = sentinel;

  int rc = yr_scanner_create(&rules, &sc);

  if (rc != ERROR_SUCCESS)
  {
    V_REACH(3);
    V_ASSERT(rc == ERROR_INSUFFICIENT_MEMORY, "failure.documented_error");
    V_ASSERT(sc == sentinel, "failure.no_scanner_returned");
    V_ASSERT(g_live == 0 && g_tables == 0 && g_objs == 0, "failure.nothing_leaked");
    return;
  }
  V_REACH(4);
  V_ASSERT(sc != sentinel && sc != NULL, "success.scanner_returned");
#if VNEG == 1
  V_ASSERT(sc->rule_matches_flags == NULL, "neg");
#endif
  V_ASSERT(sc->rule_matches_flags != NULL && sc->required_eval != NULL && sc->ns_unsatisfied_flags != NULL &&
               sc->strings_temp_disabled != NULL,
           "success.all_bitmaps_allocated");
  V_ASSERT((sc->matches != NULL && sc->unconfirmed_matches != NULL) || num_strings == 0, "success.match_lists_allocated");
  V_ASSERT(sc->rules == &rules && sc->objects_table != NULL, "success.bound_to_rules");
  V_ASSERT(sc->entry_point == YR_UNDEFINED && sc->file_size == YR_UNDEFINED, "success.no_entry_point_or_size_yet");
  V_ASSERT(sc->flags == (SCAN_FLAGS_REPORT_RULES_MATCHING | SCAN_FLAGS_REPORT_RULES_NOT_MATCHING), "success.default_report_flags");
  V_ASSERT(g_added == n_ext && g_objs == n_ext, "success.one_object_per_external_in_this_scanner");
  V_ASSERT(sc->rule_matches_flags[0] == 0 && sc->required_eval[0] == 0 && sc->strings_temp_disabled[0] == 0 && sc->ns_unsatisfied_flags[0] == 0,
           "success.state_starts_clean");
  yr_scanner_destroy(sc);
  V_ASSERT(g_live == 0 && g_tables == 0 && g_objs == 0, "destroy.releases_everything");
}
