/* C12: yr_parser_reduce_string_identifier (libyara/parser.c), named-string branch and
 * anonymous-string branch.
 *
 * The scan-time shortcuts are driven by two per-string flags (scan.c,
 * yr_scan_verify_match): SINGLE_MATCH (fast mode stops after the first match)
 * and FIXED_OFFSET (only a candidate at fixed_offset is verified). They change
 * no verdict only if, for EVERY use of the string in a condition:
 *   S  SINGLE_MATCH survives only a plain `$a` (OP_FOUND): any other use needs
 *      the other matches (count, offset, length, at, in)
 *   F  FIXED_OFFSET survives only `$a at <constant k>` with k the one offset
 *      recorded so far; afterwards fixed_offset == k. A non-constant offset
 *      (YR_UNDEFINED at compile time) or a second, different constant clears it
 *   no other flag changes except REFERENCED (named strings)
 * The string's state before the call is arbitrary (it is whatever earlier uses
 * left): the contract is inductive over the sequence of uses.
 *
 * Route P (loop-free named branch, all inputs symbolic) / B (anonymous branch:
 * rule with <= 2 strings). Stubs: emitter (arbitrary fixed result), string lookup;
 * they replace functions of the same translation unit, which the runner does with
 * goto-instrument --replace-calls (hence no native build of this harness).
 */
#include "vharness.h"
#include <string.h>
#include <stdlib.h>

#include "/repo/libyara/parser.c"

static YR_COMPILER comp;
static YR_STRING* g_str;
static YR_RULE g_rule;
static int in_emit_rc, in_lookup_rc;

YR_COMPILER* yara_yyget_extra(yyscan_t s) { return &comp; }
int vstub_lookup_string(yyscan_t yyscanner, const char* identifier, YR_STRING** string)
{
  if (in_lookup_rc != ERROR_SUCCESS) return in_lookup_rc;
  *string = &g_str[0];
  return ERROR_SUCCESS;
}
int vstub_emit(yyscan_t s, uint8_t i, YR_ARENA_REF* r) { return in_emit_rc; }
int vstub_emit_arg(yyscan_t s, uint8_t i, int64_t a, YR_ARENA_REF* r1, YR_ARENA_REF* r2) { return in_emit_rc; }
int vstub_emit_reloc(yyscan_t s, uint8_t i, void* a, YR_ARENA_REF* r1, YR_ARENA_REF* r2) { return in_emit_rc; }
void* yr_arena_get_ptr(YR_ARENA* arena, uint32_t buffer_id, yr_arena_off_t offset) { return &g_rule; }
void* yr_arena_ref_to_ptr(YR_ARENA* arena, YR_ARENA_REF* ref) { return NULL; }
YR_RULE* _yr_compiler_get_rule_by_idx(YR_COMPILER* compiler, uint32_t rule_idx) { return &g_rule; }

#ifndef ANON
#define ANON 0
#endif
#define NSTR 2

void harness(void)
{
  V_IN(uint8_t, instruction);
  V_IN(uint64_t, at_offset);
  V_IN_ARR(uint32_t, flags0, NSTR);
  V_IN_ARR(int64_t, fixed0, NSTR);
  V_IN(int, emit_rc);
  V_IN(int, lookup_rc);
  V_IN(int, loop_idx);

  /* heap objects (see DESIGN.md 7 on CBMC's value sets and static objects) */
  g_str = malloc(sizeof(YR_STRING) * NSTR);
  V_ASSUME(g_str != NULL);
  memset(g_str, 0, sizeof(YR_STRING) * NSTR);
  for (int i = 0; i < NSTR; i++)
  {
    g_str[i].flags = flags0[i];
    g_str[i].fixed_offset = fixed0[i];
    g_str[i].rule_idx = 0;
    g_str[i].idx = i;
  }
  /* yr_rule_strings_foreach walks until STRING_FLAGS_LAST_IN_RULE */
  g_str[0].flags &= ~STRING_FLAGS_LAST_IN_RULE;
  g_str[NSTR - 1].flags |= STRING_FLAGS_LAST_IN_RULE;
  flags0[0] = g_str[0].flags;
  flags0[NSTR - 1] = g_str[NSTR - 1].flags;
  g_rule.strings = g_str;
  in_emit_rc = emit_rc;
  in_lookup_rc = lookup_rc;
  comp.loop_for_of_var_index = loop_idx;
  comp.current_rule_idx = 0;

  int rc = yr_parser_reduce_string_identifier(NULL, ANON ? "$" : "$a", instruction, at_offset);

#if !ANON
  if (lookup_rc != ERROR_SUCCESS || emit_rc != ERROR_SUCCESS)
  {
    V_ASSERT(rc != ERROR_SUCCESS, "error_is_propagated");
    return;
  }
  V_REACH(3);
  V_ASSERT(rc == ERROR_SUCCESS, "result.success");
#define CHECK_FROM 0
#define CHECK_TO 1
#else
  if (loop_idx < 0)
  {
    V_ASSERT(rc == ERROR_MISPLACED_ANONYMOUS_STRING, "anonymous_string_outside_loop_rejected");
    for (int i = 0; i < NSTR; i++)
      V_ASSERT(g_str[i].flags == flags0[i] && g_str[i].fixed_offset == fixed0[i], "rejection_changes_nothing");
    return;
  }
  V_REACH(3);
#define CHECK_FROM 0
#define CHECK_TO NSTR
#endif

  for (int i = CHECK_FROM; i < CHECK_TO; i++)
  {
    uint32_t f1 = g_str[i].flags, f0 = flags0[i];
    /* S */
#if VNEG == 1
    V_ASSERT(!(f1 & STRING_FLAGS_SINGLE_MATCH) || ((f0 & STRING_FLAGS_SINGLE_MATCH) && instruction == OP_FOUND_IN), "S.single_match_survives_only_plain_use");
#else
    V_ASSERT(!(f1 & STRING_FLAGS_SINGLE_MATCH) || ((f0 & STRING_FLAGS_SINGLE_MATCH) && instruction == OP_FOUND), "S.single_match_survives_only_plain_use");
#endif
    /* F */
    if (f1 & STRING_FLAGS_FIXED_OFFSET)
    {
      V_ASSERT(f0 & STRING_FLAGS_FIXED_OFFSET, "F.fixed_offset_never_switched_on_here");
      V_ASSERT(instruction == OP_FOUND_AT, "F.fixed_offset_survives_only_at");
#if !ANON
      V_ASSERT(at_offset != YR_UNDEFINED, "F.fixed_offset_needs_a_constant");
#endif
      V_ASSERT((uint64_t) g_str[i].fixed_offset == at_offset, "F.recorded_offset_is_the_one_used");
      V_ASSERT(fixed0[i] == YR_UNDEFINED || (uint64_t) fixed0[i] == at_offset, "F.no_second_different_offset");
    }
    /* frame */
    uint32_t may_change = STRING_FLAGS_SINGLE_MATCH | STRING_FLAGS_FIXED_OFFSET | (ANON ? 0 : STRING_FLAGS_REFERENCED);
    V_ASSERT((f1 & ~may_change) == (f0 & ~may_change), "frame.other_flags_unchanged");
#if !ANON
    V_ASSERT(f1 & STRING_FLAGS_REFERENCED, "named_string_marked_referenced");
#endif
  }
#if !ANON
  V_ASSERT(g_str[1].flags == flags0[1] && g_str[1].fixed_offset == fixed0[1], "frame.other_string_untouched");
#endif
}
