/* C03 / C15 / C16: small functions of libyara/re.c under function contracts (dfcc, loop-free).
 * RSEL 1 _yr_re_is_char_in_class : class membership = bitmap bit of the character, or of its
 *        other-case form when matching case-insensitively, inverted for a negated class
 * RSEL 2 _yr_re_is_word_char     : alphanumeric or '_' ; for wide input additionally a zero
 *        high byte; reads only the character's own bytes
 * RSEL 3 _yr_re_fiber_create     : reuses a pooled fiber, else allocates; the 1024-fiber
 *        limit yields ERROR_TOO_MANY_RE_FIBERS and changes nothing; allocation failure
 *        yields ERROR_INSUFFICIENT_MEMORY; a new fiber starts with ip NULL, sp -1, rc -1
 * RSEL 4 _yr_emit_split          : the 128th split yields ERROR_REGULAR_EXPRESSION_TOO_COMPLEX
 *        before anything is written; otherwise the split id advances by exactly one
 */
#include "vharness.h"
#include <string.h>
#include <stdlib.h>

#ifdef VMODE_CONTRACT
#include <yara/types.h>
#include <yara/error.h>
#include <yara/re.h>
#include <yara/limits.h>
#include <yara/globals.h>
#define BIT(bm, c) (((bm)[(c) / 8] >> ((c) % 8)) & 1)

#if RSEL == 1
static bool _yr_re_is_char_in_class(RE_CLASS* re_class, uint8_t chr, int case_insensitive)
    /* clang-format off */
__CPROVER_requires(__CPROVER_is_fresh(re_class, sizeof(RE_CLASS)))
__CPROVER_assigns()
#if VNEG == 1
__CPROVER_ensures(__CPROVER_return_value == (BIT(re_class->bitmap, chr) != 0))
#else
__CPROVER_ensures(__CPROVER_return_value ==
    (((BIT(re_class->bitmap, chr) || (case_insensitive && BIT(re_class->bitmap, yr_altercase[chr]))) != 0) != (re_class->negated != 0)))
#endif
    /* clang-format on */
    ;
#define CALL() do { RE_CLASS* c; uint8_t ch; int ci; _yr_re_is_char_in_class(c, ch, ci); } while (0)
#define ENFORCE "_yr_re_is_char_in_class"
#elif RSEL == 2
static int spec_alnum(uint8_t c) { return (c >= '0' && c <= '9') || (c >= 'a' && c <= 'z') || (c >= 'A' && c <= 'Z'); }
static bool _yr_re_is_word_char(const uint8_t* input, uint8_t character_size)
    /* clang-format off */
__CPROVER_requires(character_size == 1 || character_size == 2)
__CPROVER_requires(__CPROVER_is_fresh(input, character_size))
__CPROVER_assigns()
#if VNEG == 1
__CPROVER_ensures(__CPROVER_return_value == (((input[0] >= '0' && input[0] <= '9') || (input[0] >= 'a' && input[0] <= 'z') || (input[0] >= 'A' && input[0] <= 'Z') || input[0] == '_')))
#else
__CPROVER_ensures(__CPROVER_return_value ==
    ((((input[0] >= '0' && input[0] <= '9') || (input[0] >= 'a' && input[0] <= 'z') || (input[0] >= 'A' && input[0] <= 'Z') || input[0] == '_')) &&
     (character_size == 2 ? input[1] == 0 : 1)))
#endif
    /* clang-format on */
    ;
#define CALL() do { const uint8_t* in; uint8_t cs; _yr_re_is_word_char(in, cs); } while (0)
#elif RSEL == 3
static int _yr_re_fiber_create(RE_FIBER_POOL* fiber_pool, RE_FIBER** new_fiber)
    /* clang-format off */
__CPROVER_requires(__CPROVER_is_fresh(fiber_pool, sizeof(RE_FIBER_POOL)))
__CPROVER_requires(__CPROVER_is_fresh(new_fiber, sizeof(RE_FIBER*)))
__CPROVER_requires(fiber_pool->fiber_count >= 0 && fiber_pool->fiber_count <= RE_MAX_FIBERS)
__CPROVER_requires(fiber_pool->fibers.head == NULL || __CPROVER_is_fresh(fiber_pool->fibers.head, sizeof(RE_FIBER)))
__CPROVER_assigns(*new_fiber, fiber_pool->fiber_count, fiber_pool->fibers.head, fiber_pool->fibers.tail;
                  fiber_pool->fibers.head != NULL: __CPROVER_object_whole(fiber_pool->fibers.head))
__CPROVER_ensures((__CPROVER_old(fiber_pool->fibers.head) == NULL && __CPROVER_old(fiber_pool->fiber_count) == RE_MAX_FIBERS) ==>
    (__CPROVER_return_value == ERROR_TOO_MANY_RE_FIBERS && fiber_pool->fiber_count == RE_MAX_FIBERS &&
     *new_fiber == __CPROVER_old(*new_fiber)))
__CPROVER_ensures(__CPROVER_return_value == ERROR_SUCCESS || __CPROVER_return_value == ERROR_TOO_MANY_RE_FIBERS ||
                  __CPROVER_return_value == ERROR_INSUFFICIENT_MEMORY)
__CPROVER_ensures(__CPROVER_return_value == ERROR_INSUFFICIENT_MEMORY ==> fiber_pool->fiber_count == __CPROVER_old(fiber_pool->fiber_count))
#if VNEG == 1
__CPROVER_ensures(__CPROVER_return_value == ERROR_SUCCESS ==> (*new_fiber)->sp == 0)
#else
__CPROVER_ensures(__CPROVER_return_value == ERROR_SUCCESS ==>
    ((*new_fiber) != NULL && (*new_fiber)->ip == NULL && (*new_fiber)->sp == -1 && (*new_fiber)->rc == -1 &&
     (*new_fiber)->next == NULL && (*new_fiber)->prev == NULL &&
     fiber_pool->fiber_count == __CPROVER_old(fiber_pool->fiber_count) + (__CPROVER_old(fiber_pool->fibers.head) == NULL ? 1 : 0) &&
     fiber_pool->fiber_count <= RE_MAX_FIBERS))
#endif
    /* clang-format on */
    ;
#define CALL() do { RE_FIBER_POOL* p; RE_FIBER** nf; _yr_re_fiber_create(p, nf); } while (0)
#endif
#endif

int yr_isalnum(const uint8_t* s) { return (*s >= '0' && *s <= '9') || (*s >= 'a' && *s <= 'z') || (*s >= 'A' && *s <= 'Z'); }
void* yr_malloc(size_t size) { return malloc(size); }

#if RSEL == 4
#include <yara/arena.h>
/* plain form: yr_arena_write_data stub counts calls */
static int g_writes, in_write_rc;
int yr_arena_write_data(YR_ARENA* arena, uint32_t buffer_id, const void* data, size_t size, YR_ARENA_REF* ref)
{
  g_writes++;
  if (ref != NULL) { ref->buffer_id = buffer_id; ref->offset = 0; }
  return in_write_rc;
}
#endif

#include "/repo/libyara/re.c"

#ifdef VMODE_CONTRACT
void harness(void) { CALL(); }
#else
void harness(void)
{
#if RSEL == 4
  V_IN(uint8_t, split_id);
  V_IN(int, write_rc);
  V_IN(uint8_t, opsel);
  V_IN(int16_t, arg);
  static RE_EMIT_CONTEXT ec;
  ec.arena = NULL; ec.next_split_id = split_id;
  V_ASSUME(split_id <= RE_MAX_SPLIT_ID);
  g_writes = 0; in_write_rc = write_rc;
  YR_ARENA_REF r1, r2;
  int rc = _yr_emit_split(&ec, opsel ? RE_OPCODE_SPLIT_A : RE_OPCODE_SPLIT_B, arg, &r1, &r2);
#if VNEG == 1
  if (split_id == RE_MAX_SPLIT_ID - 1)
#else
  if (split_id == RE_MAX_SPLIT_ID)
#endif
  {
    V_REACH(3);
    V_ASSERT(rc == ERROR_REGULAR_EXPRESSION_TOO_COMPLEX && g_writes == 0 && ec.next_split_id == split_id, "limit.too_complex_before_anything_is_written");
    return;
  }
  if (write_rc != ERROR_SUCCESS) { V_ASSERT(rc == write_rc, "write_error_propagated"); return; }
  V_REACH(4);
  V_ASSERT(rc == ERROR_SUCCESS && g_writes == 3 && ec.next_split_id == split_id + 1, "split_id_advances_by_one");
#endif
}
#endif
