/* C20: yr_rules_define_{integer,boolean,float,string}_variable of libyara/rules.c.
 *
 * Property text: "Definitions with an unknown identifier or an incompatible
 * type are rejected with the documented error and change nothing"; a valid
 * definition changes exactly that variable.
 *
 * Route B: external-variable table of NVARS entries (+ terminator), identifiers
 * of <= 2 characters (all byte values), all types, symbolic lookup identifier.
 * VARIANT 1 integer, 2 boolean, 3 float (bit pattern), 4 string.
 */
#include "vharness.h"
#include <stdlib.h>
#include <string.h>

#include "/repo/libyara/rules.c"

#ifndef NVARS
#define NVARS 3
#endif

static int g_free_calls;
static void* g_freed;
static int g_strdup_fails;
void yr_free(void* ptr) { g_free_calls++; g_freed = ptr; }
static char dup_store[4];
char* yr_strdup(const char* s)
{
  if (g_strdup_fails) return NULL;
  dup_store[0] = s[0]; dup_store[1] = s[0] ? s[1] : 0; dup_store[2] = 0;
  return dup_store;
}

#if VARIANT == 1
#define WANT EXTERNAL_VARIABLE_TYPE_INTEGER
#elif VARIANT == 2
#define WANT EXTERNAL_VARIABLE_TYPE_BOOLEAN
#elif VARIANT == 3
#define WANT EXTERNAL_VARIABLE_TYPE_FLOAT
#elif VARIANT == 4
#define WANT EXTERNAL_VARIABLE_TYPE_STRING
#else
#error VARIANT
#endif

static int type_ok(int t)
{
#if VNEG == 2
  return 1; /* wrong on purpose: no type check expected */
#endif
#if VARIANT == 4
  return t == EXTERNAL_VARIABLE_TYPE_STRING || t == EXTERNAL_VARIABLE_TYPE_MALLOC_STRING;
#else
  return t == WANT;
#endif
}

void harness(void)
{
  V_IN_ARR(uint8_t, ids, NVARS * 3);
  V_IN_ARR(int32_t, types, NVARS);
  V_IN_ARR(int64_t, values, NVARS);
  V_IN_ARR(uint8_t, key, 3);
  V_IN(int64_t, newval);
  V_IN(uint8_t, null_key);
  V_IN(uint8_t, strdup_fails);

  static YR_EXTERNAL_VARIABLE tab[NVARS + 1], before[NVARS + 1];
  static YR_RULES rules;
  static char idbuf[NVARS][3];
  static char keybuf[3];
  static char oldstr[NVARS][2];

  memset(tab, 0, sizeof tab);
  for (int i = 0; i < NVARS; i++)
  {
    V_ASSUME(types[i] >= EXTERNAL_VARIABLE_TYPE_FLOAT && types[i] <= EXTERNAL_VARIABLE_TYPE_MALLOC_STRING);
    idbuf[i][0] = (char) ids[3 * i];
    idbuf[i][1] = (char) ids[3 * i + 1];
    idbuf[i][2] = 0;
    V_ASSUME(idbuf[i][0] != 0); /* identifiers are not empty */
    tab[i].type = types[i];
    tab[i].identifier = idbuf[i];
    if (types[i] == EXTERNAL_VARIABLE_TYPE_STRING || types[i] == EXTERNAL_VARIABLE_TYPE_MALLOC_STRING)
      tab[i].value.s = oldstr[i];
    else
      tab[i].value.i = values[i];
  }
  tab[NVARS].type = EXTERNAL_VARIABLE_TYPE_NULL;
  memcpy(before, tab, sizeof tab);
  rules.ext_vars_table = tab;
  keybuf[0] = (char) key[0]; keybuf[1] = (char) key[1]; keybuf[2] = 0;
  g_free_calls = 0; g_freed = NULL; g_strdup_fails = strdup_fails;

  const char* k = null_key ? NULL : keybuf;
#if VARIANT == 1
  int rc = yr_rules_define_integer_variable(&rules, k, newval);
#elif VARIANT == 2
  int rc = yr_rules_define_boolean_variable(&rules, k, (int) newval);
#elif VARIANT == 3
  double dv;
  memcpy(&dv, &newval, 8);
  int rc = yr_rules_define_float_variable(&rules, k, dv);
#else
  static char newstr[3] = "nv";
  int rc = yr_rules_define_string_variable(&rules, k, newstr);
#endif

  /* the documented lookup: first entry whose identifier equals the key */
  int f = -1;
  if (!null_key)
    for (int i = NVARS - 1; i >= 0; i--)
      if (strcmp(idbuf[i], keybuf) == 0) f = i;

  /* every entry other than f is untouched -- in all cases */
  for (int i = 0; i <= NVARS; i++)
    if (i != f)
      V_ASSERT(memcmp(&tab[i], &before[i], sizeof tab[i]) == 0, "other_entries_unchanged");

  if (f < 0)
  {
    V_REACH(3);
    V_ASSERT(rc == ERROR_INVALID_ARGUMENT, "unknown_identifier_rejected");
    V_ASSERT(g_free_calls == 0, "nothing_freed_on_rejection");
    return;
  }
  V_ASSERT(tab[f].identifier == before[f].identifier, "identifier_unchanged");
  if (!type_ok(before[f].type))
  {
    V_REACH(4);
    V_ASSERT(rc == ERROR_INVALID_EXTERNAL_VARIABLE_TYPE, "wrong_type_rejected");
    V_ASSERT(memcmp(&tab[f], &before[f], sizeof tab[f]) == 0, "wrong_type_changes_nothing");
    V_ASSERT(g_free_calls == 0, "nothing_freed_on_rejection");
    return;
  }
  V_REACH(5);
#if VARIANT == 4
  V_ASSERT(rc == (strdup_fails ? ERROR_INSUFFICIENT_MEMORY : ERROR_SUCCESS), "string.result");
  V_ASSERT(tab[f].type == EXTERNAL_VARIABLE_TYPE_MALLOC_STRING, "string.type_is_heap_string");
  if (!strdup_fails) V_ASSERT(tab[f].value.s == dup_store && dup_store[0] == 'n', "string.value_is_copy_of_argument");
  if (before[f].type == EXTERNAL_VARIABLE_TYPE_MALLOC_STRING)
    V_ASSERT(g_free_calls == 1 && g_freed == before[f].value.s, "string.old_heap_value_freed_exactly_once");
  else
    V_ASSERT(g_free_calls == 0, "string.arena_owned_value_not_freed");
#else
  V_ASSERT(rc == ERROR_SUCCESS, "result.success");
  V_ASSERT(tab[f].type == before[f].type, "type_unchanged");
#if VARIANT == 2
  V_ASSERT(tab[f].value.i == (int64_t) (int) newval, "value_set");
#elif VNEG == 1
  V_ASSERT(tab[f].value.i == newval + 1, "value_set");
#else
  V_ASSERT(tab[f].value.i == newval, "value_set");
#endif
  V_ASSERT(g_free_calls == 0, "nothing_freed");
#endif
}
