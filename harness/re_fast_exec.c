/* C02 / C16: yr_re_fast_exec of libyara/re.c -- the matcher used for every hex string
 * without alternatives (STRING_FLAGS_FAST_REGEXP) -- on symbolic programs over a symbolic
 * buffer, compared with the denotation of a hex pattern:
 *
 *   a pattern is a sequence of items; a byte item (xx, x?, ?x, ??, ~xx, ~x?) consumes one
 *   byte that satisfies it; a jump [min-max] consumes any j bytes, min <= j <= max. A byte
 *   sequence satisfies the pattern iff it can be cut into consecutive pieces satisfying the
 *   items in order. L(p, d) = set of lengths l such that d[0..l) satisfies p.
 *
 * Obligations (for every program of the stated shape, every buffer, every start position,
 * forwards and backwards, every allocation-failure pattern):
 *   exhaustive mode : the set of lengths handed to the callback == L (no length missing,
 *                     none invented), each with the right start pointer;
 *   first-match mode: *matches == -1 iff L is empty, otherwise *matches is a member of L;
 *   no byte outside [buffer, buffer+size) is read (CBMC pointer checks on the real code);
 *   ERROR_INSUFFICIENT_MEMORY only if an allocation failed, nothing else but SUCCESS, and
 *   every position taken from the pool or the allocator is back in the pool at return.
 *
 * Route B. The STRUCTURE of the pattern is a compile-time constant (-DCFG=n, swept by the
 * runner over every structure within the bound), everything else is symbolic:
 *   CFG = dir + 4 * (fail + 5 * (item0 + 14 * (item1 + 14 * item2))),  dir bit0 backwards, bit1
 *   exhaustive; fail 0 no allocation fails, k the k-th allocation fails;
 *   item: 0 ANY | 1 LITERAL-or-NOT_LITERAL (symbolic which) | 2 MASKED_LITERAL-or-
 *   MASKED_NOT_LITERAL (symbolic which) | 3..12 jump [min-max] with 0 <= min <= max <= 3 |
 *   13 end of pattern.  The last item is not a jump, as in every pattern hex_grammar.y accepts.
 * Buffer of DSIZE bytes, start position, bytes, values, masks, negation and the allocation
 * failure pattern are symbolic. (A symbolic structure makes the instruction pointer and the
 * position list symbolic; CBMC's symbolic execution then does not finish -- measured.)
 */
#include "vharness.h"
#include <string.h>
#include <stdlib.h>

#define NITEMS 3
#ifndef CFG
#define CFG 0
#endif
#ifndef DSIZE
#define DSIZE 5
#endif
#define JMAX 3
#define NPOS 8

#include <yara/types.h>
#include <yara/re.h>

/* separate objects, not an array: pointers into an array of structs make every list
 * operation a symbolic-index array update (measured: 100 s instead of 0.5 s) */
static RE_FAST_EXEC_POSITION pp0, pp1, pp2, pp3, pp4, pp5, pp6, pp7;
static int g_allocs, g_alloc_failed;
static uint32_t in_failmask;
int yr_isalnum(const uint8_t* s) { return 0; }
void* yr_malloc(size_t size)
{
  int k = g_allocs++;
  if (k >= NPOS || ((in_failmask >> k) & 1)) { g_alloc_failed = 1; return NULL; }
  switch (k)
  {
  case 0: return &pp0; case 1: return &pp1; case 2: return &pp2; case 3: return &pp3;
  case 4: return &pp4; case 5: return &pp5; case 6: return &pp6; default: return &pp7;
  }
}

#include "/repo/libyara/re.c"

static uint32_t g_cb_set; /* bit l: callback called with length l */
static int g_cb_bad_ptr, g_cb_bad_len;
static const uint8_t* g_expect_fwd_ptr;
static const uint8_t* g_bwd_origin;
static int g_backwards;
static int the_callback(const uint8_t* match, int match_length, int flags, void* args)
{
  if (match_length < 0 || match_length > DSIZE) { g_cb_bad_len = 1; return ERROR_SUCCESS; }
  g_cb_set |= 1u << match_length;
  if (g_backwards ? (match != g_bwd_origin - match_length) : (match != g_expect_fwd_ptr)) g_cb_bad_ptr = 1;
  return ERROR_SUCCESS;
}

enum { K_ANY, K_LIT, K_MASKED, K_JUMP0, K_END = 13 };
#define FAILAT (((CFG) / 4) % 5)
#define ITEM(i) ((i) == 0 ? ((CFG) / 20) % 14 : (i) == 1 ? ((CFG) / 280) % 14 : ((CFG) / 3920) % 14)
#define IS_JUMP(it) ((it) >= K_JUMP0 && (it) < K_END)
static const uint8_t jpair_min[10] = {0, 0, 0, 0, 1, 1, 1, 2, 2, 3};
static const uint8_t jpair_max[10] = {0, 1, 2, 3, 1, 2, 3, 2, 3, 3};

/* One guard byte in front of the buffer, inside the same object: matching backwards forms (and
 * compares, never dereferences) the pointer one before the buffer, which CBMC's pointer
 * relation check would report on a bare array. The guard byte is a symbolic input that the
 * denotation below does not depend on, so a read of it that influences the result is still a
 * failed obligation; a read past the END of the buffer is an out-of-bounds access as usual. */
static uint8_t store[DSIZE + 1];
#define buf (store + 1)
static uint8_t code[NITEMS * 5 + 1];
static YR_SCAN_CONTEXT ctx;

/* The (symbolic) choice between an opcode and its negated form is made by branching BEFORE the
 * call, so that on every path of the symbolic execution the opcodes are constants. */
static uint8_t g_kind[NITEMS], g_negated[NITEMS], g_opoff[NITEMS];
static int g_nitems, g_start, g_flags, g_matches;
static int run_from(int i)
{
  if (i >= g_nitems)
    return yr_re_fast_exec(&ctx, code, buf + g_start, DSIZE - g_start, g_start, g_flags, the_callback, NULL, &g_matches);
  if (g_kind[i] == 1 /* K_LIT */)
  {
    if (g_negated[i]) { code[g_opoff[i]] = RE_OPCODE_NOT_LITERAL; return run_from(i + 1); }
    else { code[g_opoff[i]] = RE_OPCODE_LITERAL; return run_from(i + 1); }
  }
  if (g_kind[i] == 2 /* K_MASKED */)
  {
    if (g_negated[i]) { code[g_opoff[i]] = RE_OPCODE_MASKED_NOT_LITERAL; return run_from(i + 1); }
    else { code[g_opoff[i]] = RE_OPCODE_MASKED_LITERAL; return run_from(i + 1); }
  }
  return run_from(i + 1);
}

void harness(void)
{
  V_IN_ARR(uint8_t, data, DSIZE);
  V_IN_ARR(uint8_t, negated, NITEMS);
  V_IN_ARR(uint8_t, val, NITEMS);
  V_IN_ARR(uint8_t, mask, NITEMS);
  V_IN(uint8_t, start);
  const uint8_t backwards = (CFG) & 1, exhaustive = ((CFG) >> 1) & 1;
  const uint8_t kind[NITEMS] = {ITEM(0), ITEM(1), ITEM(2)};
  const int nitems = kind[0] == K_END ? 0 : kind[1] == K_END ? 1 : kind[2] == K_END ? 2 : 3;
  uint8_t jmin[NITEMS], jmax[NITEMS];
  /* which allocation fails is part of the structure (a symbolic failure pattern does not finish) */
  const uint32_t failmask = FAILAT == 0 ? 0 : 1u << (FAILAT - 1);

  /* structures outside the stated family are rejected at compile time of the harness */
  _Static_assert(ITEM(0) != K_END, "empty pattern");
  _Static_assert(ITEM(1) != K_END || ITEM(2) == K_END, "items after the end marker");
  _Static_assert(!IS_JUMP(ITEM(2)) && !(ITEM(2) == K_END && IS_JUMP(ITEM(1))) && !(ITEM(1) == K_END && IS_JUMP(ITEM(0))), "a pattern does not end with a jump");
  V_ASSUME(start <= DSIZE);
  V_IN(uint8_t, guard);
  store[0] = guard;
  for (int i = 0; i < DSIZE; i++) buf[i] = data[i];
  int n = 0;
  for (int i = 0; i < NITEMS; i++)
  {
    if (i >= nitems) break;
    jmin[i] = jmax[i] = 0;
    switch (kind[i])
    {
    case K_ANY: code[n++] = RE_OPCODE_ANY; break;
    case K_LIT: g_opoff[i] = n; code[n++] = RE_OPCODE_LITERAL; code[n++] = val[i]; break;
    case K_MASKED: g_opoff[i] = n; code[n++] = RE_OPCODE_MASKED_LITERAL; code[n++] = val[i]; code[n++] = mask[i]; break;
    default:
      jmin[i] = jpair_min[kind[i] - K_JUMP0]; jmax[i] = jpair_max[kind[i] - K_JUMP0];
      code[n++] = RE_OPCODE_REPEAT_ANY_UNGREEDY;
      code[n++] = jmin[i]; code[n++] = 0; code[n++] = jmax[i]; code[n++] = 0;
      break;
    }
  }
  code[n] = RE_OPCODE_MATCH;

  memset(&ctx, 0, sizeof ctx);
  in_failmask = failmask; g_allocs = 0; g_alloc_failed = 0;
  g_cb_set = 0; g_cb_bad_ptr = g_cb_bad_len = 0;
  g_backwards = backwards != 0;
  g_expect_fwd_ptr = buf + start; g_bwd_origin = buf + start;
  int flags = (backwards ? RE_FLAGS_BACKWARDS : 0) | (exhaustive ? RE_FLAGS_EXHAUSTIVE : 0);
  int matches = -7;

  for (int i = 0; i < NITEMS; i++) { g_kind[i] = kind[i]; g_negated[i] = negated[i]; }
  g_nitems = nitems; g_start = start; g_flags = flags; g_matches = -7;
  int rc = run_from(0);
  matches = g_matches;

  /* ---- the denotation L as a bit set over lengths ---- */
  int avail = backwards ? start : DSIZE - start;
  uint32_t S = 1;
  for (int i = 0; i < NITEMS; i++)
  {
    if (i >= nitems) break;
    uint32_t T = 0;
    for (int l = 0; l <= DSIZE; l++)
    {
      if (!((S >> l) & 1)) continue;
      if (IS_JUMP(kind[i]))
      {
        for (int j = 0; j <= JMAX; j++)
          /* a jump is followed by a byte item, so one more byte must be left */
          if (j >= jmin[i] && j <= jmax[i] && l + j < avail) T |= 1u << (l + j);
      }
      else if (l < avail)
      {
        uint8_t b = backwards ? buf[start - 1 - l] : buf[start + l];
        int ok;
        switch (kind[i])
        {
        case K_ANY: ok = 1; break;
        case K_LIT: ok = (b == val[i]) != (negated[i] != 0); break;
#if VNEG == 1
        default: ok = ((b & mask[i]) == (val[i] & mask[i])) != (negated[i] != 0); break; /* wrong on purpose */
#else
        default: ok = ((b & mask[i]) == val[i]) != (negated[i] != 0); break;
#endif
        }
        if (ok) T |= 1u << (l + 1);
      }
    }
    S = T;
  }

  V_ASSERT(rc == ERROR_SUCCESS || rc == ERROR_INSUFFICIENT_MEMORY, "E.only_documented_results");
  V_ASSERT(rc != ERROR_INSUFFICIENT_MEMORY || g_alloc_failed, "E.no_memory_error_only_after_failed_allocation");
  /* every position obtained is back in the pool */
  {
    int in_pool = 0;
    RE_FAST_EXEC_POSITION* p = ctx.re_fast_exec_position_pool.head;
    for (int k = 0; k < NPOS + 1 && p != NULL; k++) { in_pool++; p = p->next; }
    int got = g_allocs - (g_alloc_failed ? 1 : 0);
    V_ASSERT(p == NULL && in_pool == (got > NPOS ? NPOS : got), "R.all_positions_returned_to_the_pool");
  }
  if (rc != ERROR_SUCCESS) return;
  V_ASSERT(!g_alloc_failed, "E.failed_allocation_reported");
  if (exhaustive)
  {
    V_REACH(3);
    V_ASSERT(!g_cb_bad_len && !g_cb_bad_ptr, "X.reported_match_starts_where_it_should");
#if VNEG == 2
    V_ASSERT((g_cb_set & ~1u) == 0, "neg");
#endif
    V_ASSERT((S & ~g_cb_set) == 0, "X.no_satisfying_length_is_missed");
    V_ASSERT((g_cb_set & ~S) == 0, "X.no_length_is_invented");
  }
  else
  {
    V_REACH(4);
    V_ASSERT(g_cb_set == 0, "F.no_callback_in_first_match_mode");
    V_ASSERT((matches == -1) == (S == 0), "F.no_match_iff_nothing_satisfies_the_pattern");
    V_ASSERT(matches == -1 || (matches >= 0 && matches <= DSIZE && ((S >> matches) & 1)), "F.reported_length_satisfies_the_pattern");
  }
}
