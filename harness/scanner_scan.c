/* C10 / C11 / C13 / C15: the real yr_scanner_scan_mem_blocks() of libyara/scanner.c
 * (with the real _yr_scanner_clean_matches, _yr_scanner_scan_mem_block and
 * yr_fetch_block_data) on a symbolic rule table and symbolic callback answers.
 *
 * Route B (bounded stand-in): NRULES rules (symbolic private/global flags and
 * namespaces), <= 2 memory blocks of <= 1 byte, empty automaton; everything
 * else symbolic: scanner flags, report flags, timeout, the verdict bitmaps
 * produced by rule evaluation, the answer of the callback to the k-th message
 * for every k, notebook allocation failure, iterator errors, the scanner's
 * state left over from EARLIER scans (history), suspension/resumption through
 * ERROR_BLOCK_NOT_READY.
 *
 * Stubs (trusted, with ghost recorders): yr_execute_code (writes arbitrary
 * verdict bitmaps, returns any code, records entry_point/file_size it saw),
 * the user callback (records the message trace), yr_notebook_create/destroy
 * (ghost live counter), yr_get_entry_point_offset/address (returns an
 * arbitrary value chosen per call, records it), stopwatch, configuration.
 * YR_TRYCATCH: only the macro's plain branch (SCAN_FLAGS_NO_TRYCATCH) is
 * analysed; the sigsetjmp/signal branch is unverified surroundings.
 */
#include "vharness.h"
#include <string.h>
#include <stdlib.h>

#include "/repo/libyara/scanner.c"

#ifndef NRULES
#define NRULES 3
#endif
#define MAXMSG (NRULES + 2)

/* ------------------------------------------------------------------ ghosts */
static int g_trace_msg[MAXMSG + 2];
static int g_trace_rule[MAXMSG + 2];
static int g_trace_len;
static uint8_t cb_answer[MAXMSG + 2]; /* input: answer to the k-th message */
static int g_notebook_live, g_notebook_created, g_notebook_destroyed;
static int g_exec_calls;
static uint64_t g_exec_entry_point, g_exec_file_size;
static uint64_t in_match_bits, in_ns_bits; /* input: what rule evaluation produces */
static int in_exec_rc;
static int g_ep_calls;
static uint64_t g_ep_last;
static uint64_t in_ep_value[2]; /* input: what the entry-point detector answers */
static int in_notebook_fails;
static uint64_t in_elapsed;
static int g_first_calls, g_next_calls, g_stopwatch_starts;
static int in_first_error, in_next_error; /* input: iterator errors */
static int in_nblocks;
static uint8_t in_fetch_null; /* input: bit k = fetch_data of block k fails */

static YR_RULE rtab[NRULES + 1];
static YR_NAMESPACE nstab[2];
static YR_RULES rules;
static YR_SCANNER sc;
static YR_BITMASK bm_match[1], bm_ns[1], bm_req[1], bm_dis[1], bm_noreq[1];
static YR_MATCHES mt[2], umt[2];
static YR_AC_TRANSITION trans[257];
static uint32_t mtab[1];
static YR_MEMORY_BLOCK blocks[2];
static YR_MEMORY_BLOCK_ITERATOR it;
static uint8_t blockdata[2][1];
static int dummy_notebook;

/* ------------------------------------------------------------------- stubs */
YR_API int yr_get_configuration_uint32(YR_CONFIG_NAME name, uint32_t* dest)
{
  *dest = 64;
  return ERROR_SUCCESS;
}
int yr_notebook_create(size_t page_size, YR_NOTEBOOK** pool)
{
  if (in_notebook_fails) return ERROR_INSUFFICIENT_MEMORY;
  g_notebook_live++;
  g_notebook_created++;
  *pool = (YR_NOTEBOOK*) &dummy_notebook;
  return ERROR_SUCCESS;
}
int yr_notebook_destroy(YR_NOTEBOOK* pool)
{
  g_notebook_live--;
  g_notebook_destroyed++;
  return ERROR_SUCCESS;
}
void yr_stopwatch_start(YR_STOPWATCH* sw) { g_stopwatch_starts++; }
uint64_t yr_stopwatch_elapsed_ns(YR_STOPWATCH* sw) { return in_elapsed; }
uint64_t yr_get_entry_point_offset(const uint8_t* buffer, size_t buffer_length)
{
  g_ep_last = in_ep_value[g_ep_calls & 1];
  g_ep_calls++;
  return g_ep_last;
}
uint64_t yr_get_entry_point_address(const uint8_t* buffer, size_t buffer_length, uint64_t base)
{
  g_ep_last = in_ep_value[g_ep_calls & 1];
  g_ep_calls++;
  return g_ep_last;
}
void* yr_thread_storage_get_value(YR_THREAD_STORAGE_KEY* storage) { return NULL; }
int yr_scan_verify_match(YR_SCAN_CONTEXT* c, YR_AC_MATCH* m, const uint8_t* d, size_t s, uint64_t b, size_t o)
{
  return ERROR_SUCCESS; /* unreachable: the automaton of the harness has no match states */
}
int yr_execute_code(YR_SCAN_CONTEXT* context)
{
  g_exec_calls++;
  g_exec_entry_point = context->entry_point;
  g_exec_file_size = context->file_size;
  context->rule_matches_flags[0] = in_match_bits;
  context->ns_unsatisfied_flags[0] = in_ns_bits;
  return in_exec_rc;
}
static int the_callback(YR_SCAN_CONTEXT* context, int message, void* message_data, void* user_data)
{
  int k = g_trace_len;
  if (k < MAXMSG + 2)
  {
    g_trace_msg[k] = message;
    g_trace_rule[k] = message_data == NULL ? -1 : (int) ((YR_RULE*) message_data - rtab);
  }
  g_trace_len++;
  return k < MAXMSG + 2 ? cb_answer[k] : CALLBACK_CONTINUE;
}
static YR_MEMORY_BLOCK* it_first(YR_MEMORY_BLOCK_ITERATOR* iterator)
{
  g_first_calls++;
  iterator->last_error = in_first_error;
  if (in_first_error != ERROR_SUCCESS || in_nblocks == 0) return NULL;
  return &blocks[0];
}
static YR_MEMORY_BLOCK* it_next(YR_MEMORY_BLOCK_ITERATOR* iterator)
{
  g_next_calls++;
  iterator->last_error = in_next_error;
  if (in_next_error != ERROR_SUCCESS) return NULL;
  /* blocks are handed out in order: first() gave block 0 */
  if (g_first_calls + g_next_calls - 1 < in_nblocks) return &blocks[g_first_calls + g_next_calls - 1];
  return NULL;
}
static uint64_t it_file_size(YR_MEMORY_BLOCK_ITERATOR* iterator) { return 4242; }
static const uint8_t* fetch0(YR_MEMORY_BLOCK* b) { return (in_fetch_null & 1) ? NULL : blockdata[0]; }
static const uint8_t* fetch1(YR_MEMORY_BLOCK* b) { return (in_fetch_null & 2) ? NULL : blockdata[1]; }

/* ------------------------------------------------------------ the harness */
#ifndef MODE
#define MODE 1 /* 1: fresh scan (any history)   2: resumed scan (BLOCK_NOT_READY) */
#endif

void harness(void)
{
  V_IN_ARR(uint8_t, rule_private, NRULES);
  V_IN_ARR(uint8_t, rule_global, NRULES);
  V_IN_ARR(uint8_t, rule_ns, NRULES);
  V_IN_ARR(uint8_t, answers, MAXMSG + 2);
  V_IN(uint64_t, match_bits);
  V_IN(uint64_t, ns_bits);
  V_IN(int, exec_rc);
  V_IN(int, scan_flags);
  V_IN(uint64_t, timeout);
  V_IN(uint64_t, elapsed);
  V_IN(uint8_t, notebook_fails);
  V_IN(uint8_t, nblocks);
  V_IN(uint8_t, blocksize0);
  V_IN(uint8_t, blocksize1);
  V_IN(uint8_t, fetch_null);
  V_IN(int, first_error);
  V_IN(int, next_error);
  V_IN(uint64_t, ep0);
  V_IN(uint64_t, ep1);
  /* history: whatever earlier scans left in the scanner */
  V_IN(uint64_t, old_entry_point);
  V_IN(uint64_t, old_file_size);
  V_IN(uint64_t, old_req);
  V_IN(uint8_t, has_callback);

  V_ASSUME(nblocks <= 2 && blocksize0 <= 1 && blocksize1 <= 1);
  V_ASSUME(notebook_fails <= 1);
  V_ASSUME(first_error == ERROR_SUCCESS || first_error == ERROR_BLOCK_NOT_READY || first_error == ERROR_COULD_NOT_MAP_FILE);
  V_ASSUME(next_error == ERROR_SUCCESS || next_error == ERROR_BLOCK_NOT_READY || next_error == ERROR_COULD_NOT_MAP_FILE);
  V_ASSUME(exec_rc == ERROR_SUCCESS || exec_rc == ERROR_SCAN_TIMEOUT || exec_rc == ERROR_CALLBACK_ERROR ||
           exec_rc == ERROR_INSUFFICIENT_MEMORY || exec_rc == ERROR_BLOCK_NOT_READY);
  /* the macro branch without signal handlers */
  V_ASSUME(scan_flags & SCAN_FLAGS_NO_TRYCATCH);
  /* yr_scanner_set_flags() guarantees at least one report flag (proved in C11.scanner.set_flags) */
  V_ASSUME(scan_flags & (SCAN_FLAGS_REPORT_RULES_MATCHING | SCAN_FLAGS_REPORT_RULES_NOT_MATCHING));

  memset(rtab, 0, sizeof rtab);
  for (int i = 0; i < NRULES; i++)
  {
    V_ASSUME(rule_private[i] <= 1 && rule_global[i] <= 1 && rule_ns[i] <= 1);
    rtab[i].flags = (rule_private[i] ? RULE_FLAGS_PRIVATE : 0) | (rule_global[i] ? RULE_FLAGS_GLOBAL : 0);
    rtab[i].ns = &nstab[rule_ns[i]];
  }
  rtab[NRULES].flags = RULE_FLAGS_NULL;
  nstab[0].idx = 0;
  nstab[1].idx = 1;
  for (int k = 0; k < MAXMSG + 2; k++)
  {
    V_ASSUME(answers[k] == CALLBACK_CONTINUE || answers[k] == CALLBACK_ABORT || answers[k] == CALLBACK_ERROR);
    cb_answer[k] = answers[k];
  }
  memset(trans, 0, sizeof trans);
  mtab[0] = 0;
  rules.rules_table = rtab;
  rules.num_rules = NRULES;
  rules.num_strings = 2;
  rules.num_namespaces = 2;
  rules.ac_transition_table = trans;
  rules.ac_match_table = mtab;
  rules.no_required_strings = bm_noreq;
  bm_noreq[0] = 0x5;

  memset(&sc, 0, sizeof sc);
  sc.rules = &rules;
  sc.flags = scan_flags;
  sc.timeout = timeout;
  sc.callback = has_callback ? the_callback : NULL;
  sc.rule_matches_flags = bm_match;
  sc.ns_unsatisfied_flags = bm_ns;
  sc.required_eval = bm_req;
  sc.strings_temp_disabled = bm_dis;
  sc.matches = mt;
  sc.unconfirmed_matches = umt;
  sc.entry_point = old_entry_point; /* left by earlier scans */
  sc.file_size = old_file_size;
  memset(mt, 0, sizeof mt);
  memset(umt, 0, sizeof umt);
  bm_match[0] = bm_ns[0] = bm_dis[0] = 0;
  bm_req[0] = old_req;

  blocks[0].size = blocksize0; blocks[0].base = 0; blocks[0].fetch_data = fetch0;
  blocks[1].size = blocksize1; blocks[1].base = 16; blocks[1].fetch_data = fetch1;
  it.first = it_first; it.next = it_next; it.file_size = it_file_size; it.context = NULL;

  in_match_bits = match_bits; in_ns_bits = ns_bits; in_exec_rc = exec_rc;
  in_notebook_fails = notebook_fails; in_elapsed = elapsed; in_nblocks = nblocks;
  in_first_error = first_error; in_next_error = next_error; in_fetch_null = fetch_null;
  in_ep_value[0] = ep0; in_ep_value[1] = ep1;
  g_trace_len = 0; g_notebook_live = g_notebook_created = g_notebook_destroyed = 0;
  g_exec_calls = g_ep_calls = g_first_calls = g_next_calls = g_stopwatch_starts = 0;

#if MODE == 1
  /* a fresh scan: the iterator is not in the NOT_READY state, no notebook is
   * pending (every earlier scan that did not return NOT_READY destroyed it) */
  it.last_error = ERROR_SUCCESS;
  sc.matches_notebook = NULL;
  /* an entry point left by an earlier scan of ANOTHER file is not a value this
   * scan's own blocks can produce */
  V_ASSUME(old_entry_point != ep0 && old_entry_point != ep1);
#else
  /* resumed scan: the previous call returned ERROR_BLOCK_NOT_READY after
   * first() had been called; its notebook is still there */
  it.last_error = ERROR_BLOCK_NOT_READY;
  sc.matches_notebook = (YR_NOTEBOOK*) &dummy_notebook;
  g_notebook_live = 1;
  g_first_calls = 1;
#endif

  int rc = yr_scanner_scan_mem_blocks(&sc, &it);

  if (!has_callback)
  {
    V_ASSERT(rc == ERROR_CALLBACK_REQUIRED, "C11.callback_required");
    V_ASSERT(g_trace_len == 0, "C11.no_message_without_callback");
    return;
  }

  /* ---------------- C10: nothing of this scan survives a finished call ---- */
  if (rc != ERROR_BLOCK_NOT_READY)
  {
    V_REACH(1);
    V_ASSERT(bm_match[0] == 0 && bm_ns[0] == 0 && bm_req[0] == 0 && bm_dis[0] == 0, "C10.per_scan_bitmaps_wiped");
    V_ASSERT(mt[0].head == NULL && mt[1].head == NULL && mt[0].count == 0 && mt[1].count == 0 &&
             umt[0].head == NULL && umt[1].head == NULL, "C10.match_lists_wiped");
    V_ASSERT(sc.matches_notebook == NULL && g_notebook_live == 0, "C10.notebook_released");
    V_ASSERT(g_notebook_destroyed <= 1, "C10.notebook_destroyed_at_most_once");
  }
  else
  {
    /* C13: a suspended scan keeps its state for the retry */
    V_REACH(2);
    V_ASSERT(g_notebook_live == 1 && sc.matches_notebook != NULL, "C13.suspended_scan_keeps_notebook");
  }

#if MODE == 1
  V_ASSERT(g_first_calls == (notebook_fails ? 0 : 1), "C13.fresh_scan_starts_with_first");
  V_ASSERT(g_stopwatch_starts == (notebook_fails ? 0 : 1), "C13.fresh_scan_starts_stopwatch");
  /* C10: rule evaluation sees an entry point and file size that belong to THIS scan */
  if (g_exec_calls > 0)
  {
    V_REACH(3);
#if VNEG == 4
    V_ASSERT(g_exec_entry_point == old_entry_point, "neg");
#endif
    V_ASSERT(g_exec_entry_point == YR_UNDEFINED || (g_ep_calls > 0 && (g_exec_entry_point == ep0 || g_exec_entry_point == ep1)),
             "C10.entry_point_belongs_to_this_scan");
    V_ASSERT(g_exec_file_size == 4242, "C10.file_size_belongs_to_this_scan");
  }
#else
  V_ASSERT(g_first_calls == 1, "C13.resumed_scan_does_not_restart_iteration");
  V_ASSERT(g_next_calls >= 1, "C13.resumed_scan_continues_with_next");
  V_ASSERT(g_notebook_created == 0, "C13.resumed_scan_keeps_its_notebook");
  V_ASSERT(g_stopwatch_starts == 0, "C13.resumed_scan_keeps_its_stopwatch");
  if (g_exec_calls > 0 && old_entry_point != YR_UNDEFINED)
    V_ASSERT(g_exec_entry_point == old_entry_point, "C13.resumed_scan_keeps_entry_point_of_first_block");
#endif
  V_ASSERT(g_exec_calls <= 1, "rule_evaluation_at_most_once");

  /* ---------------- C11: the message sequence -------------------------- */
  /* expected trace, computed from the documented protocol */
  int exp_msg[MAXMSG + 2], exp_rule[MAXMSG + 2], n = 0, exp_rc = ERROR_SUCCESS, stopped = 0;
  int evaluated = (g_exec_calls == 1 && exec_rc == ERROR_SUCCESS);
  if (evaluated)
  {
    for (int i = 0; i < NRULES && !stopped; i++)
    {
      int matching = ((match_bits >> i) & 1) && !((ns_bits >> rule_ns[i]) & 1);
      int msg = 0;
#if VNEG == 5
      if (matching) { msg = CALLBACK_MSG_RULE_MATCHING; }
#else
      if (matching) { if (scan_flags & SCAN_FLAGS_REPORT_RULES_MATCHING) msg = CALLBACK_MSG_RULE_MATCHING; }
#endif
      else { if (scan_flags & SCAN_FLAGS_REPORT_RULES_NOT_MATCHING) msg = CALLBACK_MSG_RULE_NOT_MATCHING; }
#if VNEG == 6
      if (msg != 0)
#else
      if (msg != 0 && !rule_private[i])
#endif
      {
        exp_msg[n] = msg; exp_rule[n] = i;
        if (answers[n] == CALLBACK_ABORT) { stopped = 1; exp_rc = ERROR_SUCCESS; }
        if (answers[n] == CALLBACK_ERROR) { stopped = 1; exp_rc = ERROR_CALLBACK_ERROR; }
        n++;
      }
    }
    if (!stopped) { exp_msg[n] = CALLBACK_MSG_SCAN_FINISHED; exp_rule[n] = -1; n++; }
    V_REACH(7);
    V_ASSERT(rc == exp_rc, "C11.return_code_after_rule_messages");
  }
  V_ASSERT(g_trace_len == n, "C11.number_of_messages");
  for (int k = 0; k < MAXMSG + 2; k++)
    if (k < n)
    {
      V_ASSERT(g_trace_msg[k] == exp_msg[k], "C11.kth_message_kind");
      V_ASSERT(g_trace_rule[k] == exp_rule[k], "C11.kth_message_rule");
    }
  if (g_exec_calls == 1 && exec_rc != ERROR_SUCCESS)
    V_ASSERT(rc == exec_rc, "C11.evaluation_error_is_returned");
  /* C15: if the stopwatch is past the deadline at a check point, the block scan reports a time-out */
  if (rc == ERROR_SCAN_TIMEOUT && g_exec_calls == 0)
    V_ASSERT(timeout > 0 && elapsed > timeout, "C15.timeout_only_when_deadline_passed");
}
