/* C14: string module (libyara/modules/string/string.c): to_int(s), to_int(s, base), length(s).
 *
 * strtoll is taken by its libc CONTRACT (stub): it consumes k >= 0 characters of the C string it
 * is given -- never beyond the first NUL -- reports the end through endptr, may set errno
 * (ERANGE / EINVAL) and returns an arbitrary value v. The module's own obligations:
 *   D  the result is DEFINED only if the numeral is the WHOLE argument: strtoll consumed exactly
 *      length(s) > 0 bytes without error -- an argument with an embedded NUL ("12\0 34") is not a
 *      numeral; then the result is v
 *   U  otherwise the result is undefined; a base other than 0 or 2..36 is undefined without
 *      parsing
 *   L  length(s) is the sized length (embedded NULs count)
 * Loop-free (route P); argument bytes, length <= 4, base, strtoll's answers all symbolic.
 * SSEL 1 to_int(s)  2 to_int(s, base)  3 length(s)
 */
#include "vharness.h"
#include <string.h>
#include <stdlib.h>
#include <errno.h>

static int in_consumed, in_errno; static long long in_value;
static int g_strtoll_calls, g_base; static const char* g_arg;
#define strtoll vstub_strtoll
static long long vstub_strtoll(const char* s, char** endp, int base)
{
  g_strtoll_calls++; g_arg = s; g_base = base;
  *endp = (char*) s + in_consumed;
  if (in_errno) errno = in_errno;
  return in_value;
}

#include "/repo/libyara/modules/string/string.c"

static int64_t g_int_result; static int g_results;
int yr_object_set_integer(int64_t value, YR_OBJECT* object, const char* field, ...) { g_int_result = value; g_results++; return ERROR_SUCCESS; }

#define SMAX 4
static struct { SIZED_STRING ss; char more[SMAX]; } store;
static YR_OBJECT ret_obj;
static YR_SCAN_CONTEXT ctx;

void harness(void)
{
  V_IN_ARR(uint8_t, c, SMAX);
  V_IN(uint8_t, len);
  V_IN(uint8_t, consumed);
  V_IN(int, err);
  V_IN(int64_t, value);
  V_IN(int64_t, base);

  V_ASSUME(len <= SMAX);
  SIZED_STRING* s = &store.ss;
  s->length = len; s->flags = 0;
  int first_nul = len;
  for (int i = SMAX - 1; i >= 0; i--) { s->c_string[i] = i < len ? (char) c[i] : 0; if (i < len && c[i] == 0) first_nul = i; }
  s->c_string[len] = 0;
  /* libc contract of strtoll: consumes a prefix of the C string */
  V_ASSUME(consumed <= first_nul);
  V_ASSUME(err == 0 || err == ERANGE || err == EINVAL);
  in_consumed = consumed; in_errno = err; in_value = value;
  g_strtoll_calls = g_results = 0;
  YR_OBJECT_FUNCTION* fobj = malloc(sizeof(YR_OBJECT_FUNCTION));
  V_ASSUME(fobj != NULL);
  fobj->return_obj = &ret_obj; ret_obj.type = OBJECT_TYPE_INTEGER;
  YR_VALUE args[2];
  args[0].ss = s; args[1].i = base;

#if SSEL == 3
  V_ASSERT(string_length(args, &ctx, fobj) == ERROR_SUCCESS && g_results == 1 && g_int_result == len, "L.length_is_the_sized_length");
#else
#if SSEL == 1
  int rc = to_int(args, &ctx, fobj);
  int base_ok = 1;
#else
  int rc = to_int_base(args, &ctx, fobj);
  int base_ok = base == 0 || (base >= 2 && base <= 36);
#endif
  V_ASSERT(rc == ERROR_SUCCESS && g_results == 1, "one_result");
  if (!base_ok) { V_REACH(3); V_ASSERT(g_int_result == YR_UNDEFINED && g_strtoll_calls == 0, "U.bad_base_is_undefined_without_parsing"); return; }
  V_ASSERT(g_strtoll_calls == 1 && g_arg == s->c_string, "parses_the_argument");
#if SSEL == 2
  V_ASSERT(g_base == (int) base, "base_passed_on");
#endif
#if VNEG == 1
  int whole = err == 0 && consumed > 0 && consumed == first_nul; /* wrong on purpose: stops at the first NUL */
#else
  int whole = err == 0 && consumed > 0 && consumed == len;
#endif
  if (whole) { V_REACH(4); V_ASSERT(g_int_result == value, "D.whole_argument_is_a_numeral"); }
  else if (value != YR_UNDEFINED) { V_REACH(5); V_ASSERT(g_int_result == YR_UNDEFINED, "U.anything_else_is_undefined"); }
#endif
}
