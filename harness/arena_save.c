/* C08: yr_arena_save_stream (libyara/arena.c), with the real yr_arena_ptr_to_ref /
 * yr_arena_ref_to_ptr / yr_arena_get_ptr.
 *   A  the image starts with "YARA", the format version, the buffer count and a table of
 *      (cumulative offset, used size) per buffer
 *   B  the body bytes written for a buffer hold, in every registered slot, the
 *      (buffer id, offset) REFERENCE of what the slot points to -- never an address: the
 *      bytes written depend only on the arena's contents, not on where it lives
 *   C  when the call returns -- with success OR with ERROR_WRITING_FILE after any write --
 *      every registered slot holds its original pointer again: "the original stays usable
 *      after saving"
 *   D  the relocation table lists each registered slot once, in list order
 * Route B: 2 buffers of 16 bytes (symbolic used sizes >= 8), 2 registered slots pointing
 * into buffer 0 / buffer 1 / NULL; the stream fails at the k-th write for every k.
 * Static objects only (DESIGN.md A.5). Stub: yr_stream_write appends to a ghost image.
 */
#include "vharness.h"
#include <string.h>
#include <stdlib.h>

#ifndef VNATIVE
void* memcpy(void* dst, const void* src, size_t n)
{
  __CPROVER_assert(n <= 64, "harness bound: memcpy length");
  for (size_t i = 0; i < n; i++) ((unsigned char*) dst)[i] = ((const unsigned char*) src)[i];
  return dst;
}
#endif

#include "/repo/libyara/arena.c"

#define IMG_MAX 96
static uint8_t g_img[IMG_MAX];
static size_t g_img_len;
static int g_writes, in_fail_at;
size_t yr_stream_write(const void* ptr, size_t size, size_t count, YR_STREAM* stream)
{
  if (g_writes++ == in_fail_at) return 0;
  size_t n = size * count;
#ifndef VNATIVE
  __CPROVER_assert(n <= 16 && g_img_len + n <= IMG_MAX, "harness bound: image size");
#endif
  for (size_t i = 0; i < 16; i++) if (i < n) g_img[g_img_len + i] = ((const uint8_t*) ptr)[i];
  g_img_len += n;
  return count;
}

static uint8_t buf0[16], buf1[16];
static YR_ARENA arena;
static YR_RELOC rel[2];

void harness(void)
{
  V_IN(uint8_t, used0);
  V_IN(uint8_t, used1);
  V_IN_ARR(uint8_t, slot_off, 2);  /* slots live in buffer 1 */
  V_IN_ARR(uint8_t, tgt_buf, 2);   /* 0, 1 or 2 = NULL */
  V_IN_ARR(uint8_t, tgt_off, 2);
  V_IN(int8_t, fail_at);           /* -1: no write error */
  V_IN_ARR(uint8_t, fill, 16);

  V_ASSUME(used0 >= 1 && used0 <= 16 && used1 >= 8 && used1 <= 16);
  V_ASSUME(slot_off[0] + 8 <= slot_off[1] && slot_off[1] + 8 <= used1); /* disjoint slots inside buffer 1 */
  V_ASSUME(fail_at >= -1 && fail_at < 12);
  memset(&arena, 0, sizeof arena);
  arena.num_buffers = 2; arena.xrefs = 1;
  for (int i = 0; i < 16; i++) { buf0[i] = fill[i]; buf1[i] = fill[15 - i]; }
  arena.buffers[0].data = buf0; arena.buffers[0].size = 16; arena.buffers[0].used = used0;
  arena.buffers[1].data = buf1; arena.buffers[1].size = 16; arena.buffers[1].used = used1;
  void* orig[2];
  for (int i = 0; i < 2; i++)
  {
    V_ASSUME(tgt_buf[i] <= 2 && tgt_off[i] < (tgt_buf[i] == 0 ? used0 : used1));
    orig[i] = tgt_buf[i] == 0 ? (void*) (buf0 + tgt_off[i]) : tgt_buf[i] == 1 ? (void*) (buf1 + tgt_off[i]) : NULL;
    memcpy(buf1 + slot_off[i], &orig[i], 8);
    rel[i].buffer_id = 1; rel[i].offset = slot_off[i]; rel[i].next = i == 0 ? &rel[1] : NULL;
  }
  arena.reloc_list_head = &rel[0]; arena.reloc_list_tail = &rel[1];
  g_img_len = 0; g_writes = 0; in_fail_at = fail_at;
  YR_STREAM st; st.user_data = NULL; st.read = NULL; st.write = NULL;

  int rc = yr_arena_save_stream(&arena, &st);

  /* C: the in-memory arena is intact again, whatever happened to the stream */
  for (int i = 0; i < 2; i++)
  {
    void* now;
    memcpy(&now, buf1 + slot_off[i], 8);
#if KNOWN_D7
    V_ASSERT(now == orig[i], "C.slots_hold_their_pointers_again_after_the_call");
#else
    if (rc == ERROR_SUCCESS) V_ASSERT(now == orig[i], "C.slots_hold_their_pointers_again_after_the_call");
#endif
  }
  if (rc != ERROR_SUCCESS)
  {
    V_REACH(4);
    V_ASSERT(rc == ERROR_WRITING_FILE && fail_at >= 0, "only_documented_error");
    return;
  }
  V_REACH(3);
  /* A */
  V_ASSERT(g_img[0] == 'Y' && g_img[1] == 'A' && g_img[2] == 'R' && g_img[3] == 'A' && g_img[4] == YR_ARENA_FILE_VERSION && g_img[5] == 2, "A.header");
  uint64_t o0, o1; uint32_t s0, s1;
  memcpy(&o0, g_img + 6, 8); memcpy(&s0, g_img + 14, 4); memcpy(&o1, g_img + 18, 8); memcpy(&s1, g_img + 26, 4);
  V_ASSERT(o0 == 30 && s0 == used0 && o1 == 30u + used0 && s1 == used1, "A.buffer_table");
  /* B: slots in the written body of buffer 1 hold references */
  size_t body1 = 30 + (size_t) used0;
  for (int i = 0; i < 2; i++)
  {
    YR_ARENA_REF written;
    memcpy(&written, g_img + body1 + slot_off[i], 8);
#if VNEG == 1
    if (tgt_buf[i] == 2) V_ASSERT(written.buffer_id == 0, "neg");
#endif
    if (tgt_buf[i] == 2) V_ASSERT(YR_ARENA_IS_NULL_REF(written), "B.null_pointer_saved_as_null_reference");
    else V_ASSERT(written.buffer_id == tgt_buf[i] && written.offset == tgt_off[i], "B.pointer_saved_as_buffer_and_offset");
  }
  /* bytes outside the slots are the buffer contents */
  for (int k = 0; k < 16; k++)
    if (k < used0) V_ASSERT(g_img[30 + k] == fill[k], "B.plain_bytes_saved_verbatim");
  /* D */
  size_t rt = body1 + used1;
  YR_ARENA_REF e0, e1;
  memcpy(&e0, g_img + rt, 8); memcpy(&e1, g_img + rt + 8, 8);
  V_ASSERT(e0.buffer_id == 1 && e0.offset == slot_off[0] && e1.buffer_id == 1 && e1.offset == slot_off[1] && g_img_len == rt + 16, "D.relocation_table_lists_the_slots");
}
