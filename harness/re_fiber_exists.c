/* C03: _yr_re_fiber_exists (libyara/re.c). Two fibers are the same thread of the
 * regex VM iff they agree on instruction pointer, stack pointer, repeat counter
 * AND every live stack entry 0..sp (the counters of all enclosing {n,m} loops).
 * Treating different fibers as duplicates drops a thread, i.e. a possible match.
 *
 * Route B: list of NF = 3 fibers, sp <= 2 (stack entries 0..2), everything else
 * symbolic (ips drawn from 2 addresses so that equality is exercised).
 * Contract: result is true iff some fiber at position <= last agrees with the
 * target on (ip, sp, rc, stack[0..sp]); nothing is modified.
 */
#include "vharness.h"
#include <string.h>
#include <stdlib.h>

#include "/repo/libyara/re.c"

#define NF 3
#define SPMAX 2

void harness(void)
{
  V_IN_ARR(uint8_t, ipsel, NF + 1);
  V_IN_ARR(int32_t, sp, NF + 1);
  V_IN_ARR(int32_t, rc, NF + 1);
  V_IN_ARR(uint16_t, st, (NF + 1) * (SPMAX + 1));
  V_IN(int8_t, last); /* -1: NULL */

  static uint8_t codebytes[2];
  RE_FIBER* f = malloc(sizeof(RE_FIBER) * (NF + 1));
  V_ASSUME(f != NULL);
  V_ASSUME(last >= -1 && last < NF);
  for (int i = 0; i <= NF; i++)
  {
    V_ASSUME(ipsel[i] <= 1 && sp[i] >= -1 && sp[i] <= SPMAX);
    f[i].ip = &codebytes[ipsel[i]];
    f[i].sp = sp[i];
    f[i].rc = rc[i];
    for (int k = 0; k <= SPMAX; k++) f[i].stack[k] = st[i * (SPMAX + 1) + k];
    f[i].prev = (i > 0 && i < NF) ? &f[i - 1] : NULL;
    f[i].next = (i + 1 < NF) ? &f[i + 1] : NULL;
  }
  RE_FIBER_LIST list;
  list.head = &f[0];
  list.tail = &f[NF - 1];
  RE_FIBER* target = &f[NF];

  int r = _yr_re_fiber_exists(&list, target, last < 0 ? NULL : &f[last]);

  int expect = 0;
  for (int j = 0; j < NF; j++)
    if (j <= last)
    {
      int same = f[j].ip == target->ip && f[j].sp == target->sp && f[j].rc == target->rc;
#if VNEG == 1
      for (int k = 0; k <= SPMAX; k++) if (k < target->sp && f[j].stack[k] != target->stack[k]) same = 0; /* wrong: top of stack ignored */
#else
      for (int k = 0; k <= SPMAX; k++) if (k <= target->sp && f[j].stack[k] != target->stack[k]) same = 0;
#endif
      if (same) expect = 1;
    }
  V_REACH(3);
  V_ASSERT((r != 0) == expect, "exists_iff_same_ip_sp_rc_and_whole_live_stack");
  free(f);
}
