/* NOT REGISTERED (CBMC does not finish: the recursive scheduler is explored for every opcode case at
 * every recursion level, 300 s time-out even with constant instruction arguments; seed C03-2 is therefore
 * MISSED, see DESIGN.md A.4).
 * C03: _yr_re_fiber_sync (libyara/re.c) on the any-byte repeat instruction  .{min,max}
 * (RE_OPCODE_REPEAT_ANY_GREEDY / _UNGREEDY), the instruction behind `.{n,m}`, `.{n,m}?` and the
 * jumps [n-m] of hex strings that contain alternatives.
 *
 * One fiber stands at   REPEAT_ANY min max ; LITERAL x ; MATCH   with repeat counter rc (the
 * number of bytes the repeat has consumed so far; -1 = just arrived). After the sync
 *   rc < min          : the fiber stays on the repeat with rc + 1, no other fiber exists
 *   min <= rc < max   : exactly two fibers: one stays on the repeat with rc + 1 (so that the
 *                       repeat can never consume more than max bytes), one continues at the next
 *                       instruction with rc = -1; greedy: the spinning one has priority (comes
 *                       first), lazy: the continuing one has priority
 *   rc >= max         : the fiber continues at the next instruction with rc = -1, alone
 * GSEL 1 greedy, 2 lazy. Route B (one fiber, the instruction shape above); min <= max <= 4 swept,
 * rc symbolic.
 * yr_malloc hands out separate static fibers.
 */
#include "vharness.h"
#include <string.h>
#include <stdlib.h>
#include <yara/types.h>
#include <yara/re.h>

static RE_FIBER f0, f1, f2;
static int g_allocs;
int yr_isalnum(const uint8_t* s) { return 0; }
void* yr_malloc(size_t size) { int k = g_allocs++; return k == 0 ? &f1 : k == 1 ? &f2 : NULL; }

#include "/repo/libyara/re.c"

static uint8_t code[8];
static RE_FIBER_LIST list;
static RE_FIBER_POOL pool;

void harness(void)
{
  /* min and max are compile-time constants (RMM = 10*min + max, swept): with symbolic
   * instruction arguments CBMC explores every opcode case at every recursion level */
  const uint8_t rmin = (RMM) / 10, rmax = (RMM) % 10;
  V_IN(int8_t, rc);
  _Static_assert((RMM) / 10 <= (RMM) % 10 && (RMM) % 10 >= 1, "min <= max, max >= 1");
  V_ASSUME(rc >= -1 && rc <= 6);
#if GSEL == 1
  code[0] = RE_OPCODE_REPEAT_ANY_GREEDY;
#else
  code[0] = RE_OPCODE_REPEAT_ANY_UNGREEDY;
#endif
  code[1] = rmin; code[2] = 0; code[3] = rmax; code[4] = 0;
  code[5] = RE_OPCODE_LITERAL; code[6] = 'x'; code[7] = RE_OPCODE_MATCH;
  memset(&f0, 0, sizeof(int) * 8);
  f0.ip = code; f0.sp = -1; f0.rc = rc; f0.prev = f0.next = NULL;
  list.head = list.tail = &f0;
  pool.fiber_count = 1; pool.fibers.head = pool.fibers.tail = NULL;
  g_allocs = 0;

  int rc_sync = _yr_re_fiber_sync(&list, &pool, &f0);

  V_ASSERT(rc_sync == ERROR_SUCCESS, "success");
  int consumed = rc == -1 ? 0 : rc;
  RE_FIBER* a = list.head;
  V_ASSERT(a != NULL && a->prev == NULL && list.tail != NULL && list.tail->next == NULL, "list.well_formed");
  if (consumed < rmin)
  {
    V_REACH(3);
    V_ASSERT(a == list.tail && a->ip == code && a->rc == consumed + 1, "below_min.keeps_spinning_with_one_more_byte");
  }
  else if (consumed < rmax)
  {
    V_REACH(4);
    RE_FIBER* b = a->next;
    V_ASSERT(b != NULL && b == list.tail && b->prev == a, "between.exactly_two_fibers");
#if GSEL == 1
    RE_FIBER* spin = a; RE_FIBER* cont = b;
#else
    RE_FIBER* spin = b; RE_FIBER* cont = a;
#endif
    V_ASSERT(spin->ip == code && cont->ip == code + 5, "between.priority_order_greedy_vs_lazy");
#if VNEG == 1
    V_ASSERT(spin->rc == consumed, "neg");
#endif
    V_ASSERT(spin->rc == consumed + 1, "between.spinning_fiber_counts_the_byte");
    V_ASSERT(cont->rc == -1 && cont->sp == -1, "between.continuing_fiber_leaves_the_repeat");
  }
  else
  {
    V_REACH(5);
    V_ASSERT(a == list.tail && a->ip == code + 5 && a->rc == -1, "at_max.leaves_the_repeat");
  }
}
