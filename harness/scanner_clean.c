/* C10 / C11 / C15: _yr_scanner_clean_matches() wipes EVERY word of the six per-scan
 * arrays, for every rule/string/namespace count (the three counts are
 * symbolic; a ghost index k stands for "every word").
 *
 * Contract (VMODE_CONTRACT, dfcc):
 *   requires  the six arrays are fresh objects of exactly the size
 *             yr_scanner_create() allocates for them
 *             (YR_BITMASK_SIZE(n) words / num_strings list heads)
 *   assigns   the six arrays (whole objects), nothing else: in particular not
 *             the YR_RULES object and no other scanner
 *   ensures   word k of each array is zero, for the ghost k < its size
 */
#include "vharness.h"
#include <stdlib.h>
#include <string.h>

#ifndef MAXN
#define MAXN 4096
#endif

static size_t g_k; /* ghost index: any word */

/* sizes are written 8 * BMS(n), not sizeof(YR_BITMASK) * BMS(n): CBMC gives a
 * malloc of sizeof(T) * n the type T[n], and its memset model (byte-array
 * replace) is imprecise on typed dynamic arrays of symbolic size */
#define BMS(n) YR_BITMASK_SIZE(n)
#define LISTS_BYTES(n) ((n) > 0 ? sizeof(YR_MATCHES) * (n) : 1)

#include "/repo/libyara/scanner.c"
_Static_assert(sizeof(YR_BITMASK) == 8, "bitmask word");

#if VNEG == 1
#define ZERO(x) ((x) == 1)
#else
#define ZERO(x) ((x) == 0)
#endif

#define POST_CLEAN(s, k)                                                        \
  (IMP((k) < BMS((s)->rules->num_rules), ZERO((s)->rule_matches_flags[k])) &&      \
   IMP((k) < BMS((s)->rules->num_rules), ZERO((s)->required_eval[k])) &&          \
   IMP((k) < BMS((s)->rules->num_namespaces), ZERO((s)->ns_unsatisfied_flags[k])) && \
   IMP((k) < BMS((s)->rules->num_strings), ZERO((s)->strings_temp_disabled[k])) &&   \
   IMP((k) < (s)->rules->num_strings,                                           \
       (s)->matches[k].head == NULL && (s)->matches[k].tail == NULL && ZERO((s)->matches[k].count) && \
       (s)->unconfirmed_matches[k].head == NULL && (s)->unconfirmed_matches[k].tail == NULL &&  \
       ZERO((s)->unconfirmed_matches[k].count)))
#define IMP(a, b) (!(a) || (b))

#ifdef VMODE_CONTRACT
static void _yr_scanner_clean_matches(YR_SCANNER* scanner)
    /* clang-format off */
__CPROVER_requires(__CPROVER_is_fresh(scanner, sizeof(YR_SCANNER)))
__CPROVER_requires(__CPROVER_is_fresh(scanner->rules, sizeof(YR_RULES)))
__CPROVER_requires(scanner->rules->num_rules <= MAXN && scanner->rules->num_strings <= MAXN && scanner->rules->num_namespaces <= MAXN)
__CPROVER_requires(__CPROVER_is_fresh(scanner->rule_matches_flags, 8 * BMS(scanner->rules->num_rules)))
__CPROVER_requires(__CPROVER_is_fresh(scanner->required_eval, 8 * BMS(scanner->rules->num_rules)))
__CPROVER_requires(__CPROVER_is_fresh(scanner->ns_unsatisfied_flags, 8 * BMS(scanner->rules->num_namespaces)))
__CPROVER_requires(__CPROVER_is_fresh(scanner->strings_temp_disabled, 8 * BMS(scanner->rules->num_strings)))
/* calloc(0, ..) of glibc returns a unique non-NULL pointer: modelled as a 1-byte object */
__CPROVER_requires(__CPROVER_is_fresh(scanner->matches, LISTS_BYTES(scanner->rules->num_strings)))
__CPROVER_requires(__CPROVER_is_fresh(scanner->unconfirmed_matches, LISTS_BYTES(scanner->rules->num_strings)))
__CPROVER_assigns(__CPROVER_object_whole(scanner->rule_matches_flags), __CPROVER_object_whole(scanner->required_eval),
                  __CPROVER_object_whole(scanner->ns_unsatisfied_flags), __CPROVER_object_whole(scanner->strings_temp_disabled),
                  __CPROVER_object_whole(scanner->matches), __CPROVER_object_whole(scanner->unconfirmed_matches))
__CPROVER_ensures(POST_CLEAN(scanner, g_k))
    /* clang-format on */
    ;
void harness(void)
{
  YR_SCANNER* scanner;
  size_t k;
  g_k = k;
  _yr_scanner_clean_matches(scanner);
}
#else
void harness(void)
{
  V_IN(uint32_t, num_rules);
  V_IN(uint32_t, num_strings);
  V_IN(uint32_t, num_namespaces);
  V_IN(size_t, k);
  V_IN(uint64_t, dirt);
  static YR_SCANNER sc;
  static YR_RULES rules;
  V_ASSUME(num_rules <= MAXN && num_strings <= MAXN && num_namespaces <= MAXN);
  rules.num_rules = num_rules; rules.num_strings = num_strings; rules.num_namespaces = num_namespaces;
  sc.rules = &rules;
  /* exactly the allocations of yr_scanner_create() */
  sc.rule_matches_flags = malloc(8 * BMS(num_rules));
  sc.required_eval = malloc(8 * BMS(num_rules));
  sc.ns_unsatisfied_flags = malloc(8 * BMS(num_namespaces));
  sc.strings_temp_disabled = malloc(8 * BMS(num_strings));
  sc.matches = malloc(LISTS_BYTES(num_strings));
  sc.unconfirmed_matches = malloc(LISTS_BYTES(num_strings));
  V_ASSUME(sc.rule_matches_flags && sc.required_eval && sc.ns_unsatisfied_flags && sc.strings_temp_disabled);
  V_ASSUME(sc.matches && sc.unconfirmed_matches);
  /* the scan left something in word k */
  if (k < BMS(num_rules)) { sc.rule_matches_flags[k] = dirt; sc.required_eval[k] = dirt; }
  if (k < BMS(num_namespaces)) sc.ns_unsatisfied_flags[k] = dirt;
  if (k < BMS(num_strings)) sc.strings_temp_disabled[k] = dirt;
  if (k < num_strings) { sc.matches[k].count = (int32_t) dirt; sc.unconfirmed_matches[k].count = (int32_t) dirt;
                         sc.matches[k].head = sc.matches[k].tail = (YR_MATCH*) &sc;
                         sc.unconfirmed_matches[k].head = sc.unconfirmed_matches[k].tail = (YR_MATCH*) &sc; }
  _yr_scanner_clean_matches(&sc);
  V_ASSERT(POST_CLEAN(&sc, k), "every_word_of_the_per_scan_state_is_wiped");
}
#endif
