/* C19: yr_parser_reduce_rule_declaration_phase_2 (libyara/parser.c) against an arena that
 * RELOCATES ON EVERY WRITE -- the worst case of "any initial capacity": each emit moves
 * the code buffer to a fresh allocation and frees the old one. A pointer into the buffer
 * that is kept across an emit then dereferences a deallocated object (CBMC pointer check),
 * and the jump offset of the rule's OP_INIT_RULE must be patched in the CURRENT buffer.
 *
 * Stubs (trusted): a one-buffer model of the code section: yr_arena_ref_to_ptr /
 * yr_arena_get_current_offset read the model; yr_parser_emit_with_arg appends 9 bytes
 * after moving the buffer (malloc new, copy, free old). The real arena's own relocation
 * logic is covered by C19.arena.* targets.
 */
#include "vharness.h"
#include <string.h>
#include <stdlib.h>

#include "/repo/libyara/parser.c"

static YR_COMPILER comp;
static YR_RULE g_rule;
static uint8_t* g_code;
static size_t g_used;
static int in_emit_fails;
static int g_live_fixups;

YR_COMPILER* yara_yyget_extra(yyscan_t s) { return &comp; }
YR_API int yr_get_configuration_uint32(YR_CONFIG_NAME name, uint32_t* dest) { *dest = 10000; return ERROR_SUCCESS; }
void yara_yywarning(yyscan_t s, const char* m, ...) {}
void* yr_arena_ref_to_ptr(YR_ARENA* arena, YR_ARENA_REF* ref)
{
  if (ref->buffer_id == YR_CODE_SECTION) return g_code + ref->offset;
  return &g_rule;
}
yr_arena_off_t yr_arena_get_current_offset(YR_ARENA* arena, uint32_t buffer_id) { return (yr_arena_off_t) g_used; }
void yr_free(void* p) { g_live_fixups--; free(p); }
int vstub_emit_arg(yyscan_t s, uint8_t instruction, int64_t arg, YR_ARENA_REF* r1, YR_ARENA_REF* r2)
{
  if (in_emit_fails) return ERROR_INSUFFICIENT_MEMORY;
  uint8_t* n = malloc(g_used + 9);
#ifndef VNATIVE
  __CPROVER_assume(n != NULL);
#endif
  for (size_t i = 0; i < 16; i++) if (i < g_used) n[i] = g_code[i];
  free(g_code); /* the buffer moved */
  g_code = n;
  g_code[g_used] = instruction;
  memcpy(g_code + g_used + 1, &arg, 8);
  g_used += 9;
  return ERROR_SUCCESS;
}

void harness(void)
{
  V_IN(uint8_t, used0);
  V_IN(uint8_t, fix_off);
  V_IN(uint8_t, emit_fails);
  V_ASSUME(used0 >= 9 && used0 <= 16 && fix_off + 4 <= used0);
  g_used = used0;
  g_code = malloc(g_used);
  V_ASSUME(g_code != NULL);
  memset(g_code, 0, g_used);
  YR_FIXUP* fx = malloc(sizeof(YR_FIXUP));
  V_ASSUME(fx != NULL);
  fx->ref.buffer_id = YR_CODE_SECTION;
  fx->ref.offset = fix_off;
  fx->next = NULL;
  g_live_fixups = 1;
  memset(&comp, 0, sizeof comp);
  comp.fixup_stack_head = fx;
  comp.current_rule_idx = 0;
  g_rule.strings = NULL;
  g_rule.num_atoms = 0;
  in_emit_fails = emit_fails;
  YR_ARENA_REF rule_ref;
  rule_ref.buffer_id = YR_RULES_TABLE;
  rule_ref.offset = 0;

  int rc = yr_parser_reduce_rule_declaration_phase_2(NULL, &rule_ref);

  if (emit_fails)
  {
    V_ASSERT(rc == ERROR_INSUFFICIENT_MEMORY, "emit_error_propagated");
    return;
  }
  V_REACH(3);
  V_ASSERT(rc == ERROR_SUCCESS, "success");
  int32_t patched;
  memcpy(&patched, g_code + fix_off, 4);
#if VNEG == 1
  V_ASSERT(patched == (int32_t) (g_used - fix_off), "jump_offset_patched_in_the_current_buffer");
#else
  V_ASSERT(patched == (int32_t) (g_used - fix_off + 1), "jump_offset_patched_in_the_current_buffer");
#endif
  V_ASSERT(g_live_fixups == 0 && comp.fixup_stack_head == NULL, "fixup_consumed");
  V_ASSERT(comp.current_rule_idx == UINT32_MAX, "rule_closed");
  free(g_code);
}
