/* C06: pe_parse_exports (libyara/modules/pe/pe.c) -- memory safety for EVERY content of the
 * export directory, name/ordinal/address tables and every RVA mapping.
 *   - no read outside [pe->data, pe->data + pe->data_size) by the parser itself
 *     (CBMC bounds/pointer checks: the data is a static object of exactly data_size bytes)
 *   - every (pointer, length) handed to the object setters lies inside the data
 *     (the setters copy `length` bytes)
 *   - termination: loops bounded by what fits into the data
 * pe_rva_to_offset and pe_get_directory_entry (pe_utils.c) are replaced by their contract:
 * "-1 or an offset < data_size" / "NULL or a directory entry inside the data"
 * (arbitrary result per call: covers every section table).
 * Route B: data_size = DSIZE bytes (32), all contents symbolic.
 */
#include "vharness.h"
#include <string.h>
#include <stdlib.h>

#ifndef VNATIVE
/* strnlen by contract (over-approximation of libc): some n <= maxlen with s[n] == 0 when
 * n < maxlen; the real function reads at most s[0..maxlen), which is asserted readable */
size_t nondet_size(void);
size_t strnlen(const char* s, size_t maxlen)
{
  __CPROVER_assert(__CPROVER_r_ok(s, maxlen), "strnlen: the maxlen bytes it may read are inside the data");
  size_t n = nondet_size();
  __CPROVER_assume(n <= maxlen);
  if (n < maxlen) __CPROVER_assume(s[n] == 0);
  return n;
}
#endif

#include "/repo/libyara/modules/pe/pe.c"

#ifndef DSIZE
#define DSIZE 32
#endif
static uint8_t data[DSIZE];
static PE g_pe;
static int g_setter_oob;
#ifndef VNATIVE
int64_t nondet_i64(void);
int nondet_int(void);
#endif
int64_t pe_rva_to_offset(PE* pe, uint64_t rva)
{
  int64_t r = nondet_i64();
  __CPROVER_assume(r >= -1 && r < (int64_t) pe->data_size);
  return r;
}
static uint8_t in_dir_off; static int in_dir_null;
PIMAGE_DATA_DIRECTORY pe_get_directory_entry(PE* pe, int entry)
{
  if (in_dir_null) return NULL;
  return (PIMAGE_DATA_DIRECTORY) (pe->data + in_dir_off);
}
int yr_object_set_integer(int64_t value, YR_OBJECT* object, const char* field, ...) { return ERROR_SUCCESS; }
int yr_object_set_string(const char* value, size_t len, YR_OBJECT* object, const char* field, ...)
{
  /* the real setter copies len bytes from value */
  if (value != NULL && len > 0)
  {
    uintptr_t a = (uintptr_t) value, lo = (uintptr_t) data;
    if (!(a >= lo && a + len <= lo + DSIZE)) g_setter_oob = 1;
  }
  return ERROR_SUCCESS;
}

void harness(void)
{
  V_IN_ARR(uint8_t, bytes, DSIZE);
  V_IN(uint8_t, dir_off);
  V_IN(uint8_t, dir_null);
  for (int i = 0; i < DSIZE; i++) data[i] = bytes[i];
  V_ASSUME(dir_off + sizeof(IMAGE_DATA_DIRECTORY) <= DSIZE);
  in_dir_off = dir_off; in_dir_null = dir_null;
  memset(&g_pe, 0, sizeof g_pe);
  g_pe.data = data; g_pe.data_size = DSIZE;
  g_setter_oob = 0;

  pe_parse_exports(&g_pe);

  V_REACH(3);
  V_ASSERT(!g_setter_oob, "every_string_handed_to_the_module_object_lies_inside_the_data");
}
