/* C06: pe_get_header (libyara/modules/pe/pe_utils.c) -- the entry gate of the pe and dotnet
 * modules and of exefiles.c: every later struct_fits_in_pe/fits_in_pe check is relative to
 * the header this function accepts.
 * Contract (dfcc, loop-free => complete): for ANY byte content and any size
 *   no read outside [data, data+data_size)                    (CBMC pointer checks)
 *   result NULL, or a pointer into data such that signature, file header and the
 *   optional header selected by its Magic (32 or 64 bit layout) lie inside the data
 *   assigns nothing
 */
#include "vharness.h"
#include <stdlib.h>
#include <string.h>

#ifdef VMODE_CONTRACT
#include <yara/pe.h>
PIMAGE_NT_HEADERS32 pe_get_header(const uint8_t* data, size_t data_size)
    /* clang-format off */
__CPROVER_requires(data_size <= ((size_t) 1 << 40))
__CPROVER_requires(__CPROVER_is_fresh(data, data_size))
__CPROVER_assigns()
#if VNEG == 1
__CPROVER_ensures(__CPROVER_return_value == NULL)
#else
__CPROVER_ensures(__CPROVER_return_value == NULL ||
   (__CPROVER_same_object(__CPROVER_return_value, data) &&
    __CPROVER_POINTER_OFFSET(__CPROVER_return_value) + sizeof(DWORD) + sizeof(IMAGE_FILE_HEADER) +
      (__CPROVER_return_value->OptionalHeader.Magic == IMAGE_NT_OPTIONAL_HDR64_MAGIC
           ? sizeof(IMAGE_OPTIONAL_HEADER64) : sizeof(IMAGE_OPTIONAL_HEADER32)) <= data_size &&
    __CPROVER_return_value->Signature == IMAGE_NT_SIGNATURE))
#endif
    /* clang-format on */
    ;
#endif

#include "/repo/libyara/modules/pe/pe_utils.c"

#ifdef VMODE_CONTRACT
void harness(void)
{
  const uint8_t* data;
  size_t data_size;
  pe_get_header(data, data_size);
}
#else
#define DMAX 400
void harness(void)
{
  V_IN_ARR(uint8_t, bytes, DMAX);
  V_IN(uint32_t, size);
  V_ASSUME(size <= DMAX);
  uint8_t* d = malloc(size ? size : 1);
  V_ASSUME(d != NULL);
  memcpy(d, bytes, size);
  PIMAGE_NT_HEADERS32 h = pe_get_header(d, size);
  if (h != NULL)
  {
    size_t off = (uint8_t*) h - d;
    size_t need = sizeof(DWORD) + sizeof(IMAGE_FILE_HEADER) +
                  (h->OptionalHeader.Magic == IMAGE_NT_OPTIONAL_HDR64_MAGIC ? sizeof(IMAGE_OPTIONAL_HEADER64) : sizeof(IMAGE_OPTIONAL_HEADER32));
    V_ASSERT(off + need <= size, "accepted_header_lies_inside_the_data");
  }
  free(d);
}
#endif
