/* C04 / C15: the iterator "next" functions of libyara/exec.c that drive every
 * `for .. in (a..b)`, `for .. in (v1, v2, ..)` and `for .. of <strings>` loop.
 * Function contracts (dfcc, loop-free => complete), ITSEL 1 int range, 2 int enum,
 * 3 string set:
 *   fewer than two free stack slots -> ERROR_EXEC_STACK_OVERFLOW, stack and iterator
 *                                      untouched                         (C15 stack limit)
 *   otherwise SUCCESS, sp grows by exactly 2 and
 *     items left    -> pushes (0, next item) and advances by one
 *     exhausted or undefined bound -> pushes (1, undefined), iterator unchanged
 *   frame: only sp, the two pushed slots and the iterator's position are assigned
 */
#include "vharness.h"
#include "vm_spec.h"
#include <string.h>
#include <stdlib.h>

#define CAP_MAX 4096
#define ENUM_MAX 64

#ifdef VMODE_CONTRACT
#include <yara/types.h>
#include <yara/error.h>

#define STACK_PRE(stack)                                                              \
  (__CPROVER_is_fresh(stack, sizeof(YR_VALUE_STACK)) && (stack)->capacity >= 1 &&       \
   (stack)->capacity <= CAP_MAX && (stack)->sp <= (stack)->capacity)
#define OVERFLOW(stack_sp_old, stack) ((stack_sp_old) + 1 >= (stack)->capacity)

#if ITSEL == 1
static int iter_int_range_next(YR_ITERATOR* self, YR_VALUE_STACK* stack)
    /* clang-format off */
__CPROVER_requires(__CPROVER_is_fresh(self, sizeof(YR_ITERATOR)))
__CPROVER_requires(STACK_PRE(stack))
__CPROVER_requires(__CPROVER_is_fresh(stack->items, stack->capacity * sizeof(YR_VALUE)))
__CPROVER_assigns(stack->sp, self->int_range_it.next, __CPROVER_object_whole(stack->items))
__CPROVER_ensures(OVERFLOW(__CPROVER_old(stack->sp), stack) ==>
    (__CPROVER_return_value == ERROR_EXEC_STACK_OVERFLOW && stack->sp == __CPROVER_old(stack->sp) &&
     self->int_range_it.next == __CPROVER_old(self->int_range_it.next)))
__CPROVER_ensures(!OVERFLOW(__CPROVER_old(stack->sp), stack) ==>
    (__CPROVER_return_value == ERROR_SUCCESS && stack->sp == __CPROVER_old(stack->sp) + 2))
#if VNEG == 1
__CPROVER_ensures((!OVERFLOW(__CPROVER_old(stack->sp), stack) ) ==> stack->items[stack->sp - 2].i == 0)
#endif
__CPROVER_ensures((!OVERFLOW(__CPROVER_old(stack->sp), stack) &&
     !VS_IS_UNDEF(__CPROVER_old(self->int_range_it.next)) && !VS_IS_UNDEF(self->int_range_it.last) &&
     __CPROVER_old(self->int_range_it.next) <= self->int_range_it.last) ==>
    (stack->items[stack->sp - 2].i == 0 && stack->items[stack->sp - 1].i == __CPROVER_old(self->int_range_it.next) &&
     self->int_range_it.next == __CPROVER_old(self->int_range_it.next) + 1))
__CPROVER_ensures((!OVERFLOW(__CPROVER_old(stack->sp), stack) &&
     !(!VS_IS_UNDEF(__CPROVER_old(self->int_range_it.next)) && !VS_IS_UNDEF(self->int_range_it.last) &&
       __CPROVER_old(self->int_range_it.next) <= self->int_range_it.last)) ==>
    (stack->items[stack->sp - 2].i == 1 && stack->items[stack->sp - 1].i == VS_UNDEF &&
     self->int_range_it.next == __CPROVER_old(self->int_range_it.next)))
    /* clang-format on */
    ;
#define FN iter_int_range_next
#elif ITSEL == 2
static int iter_int_enum_next(YR_ITERATOR* self, YR_VALUE_STACK* stack)
    /* clang-format off */
__CPROVER_requires(__CPROVER_is_fresh(self, sizeof(YR_ITERATOR) + ENUM_MAX * sizeof(int64_t)))
__CPROVER_requires(VS_IS_UNDEF(self->int_enum_it.count) || (self->int_enum_it.count >= 0 && self->int_enum_it.count <= ENUM_MAX))
__CPROVER_requires(VS_IS_UNDEF(self->int_enum_it.next) || self->int_enum_it.next >= 0)
__CPROVER_requires(STACK_PRE(stack))
__CPROVER_requires(__CPROVER_is_fresh(stack->items, stack->capacity * sizeof(YR_VALUE)))
__CPROVER_assigns(stack->sp, self->int_enum_it.next, __CPROVER_object_whole(stack->items))
__CPROVER_ensures(OVERFLOW(__CPROVER_old(stack->sp), stack) ==>
    (__CPROVER_return_value == ERROR_EXEC_STACK_OVERFLOW && stack->sp == __CPROVER_old(stack->sp) &&
     self->int_enum_it.next == __CPROVER_old(self->int_enum_it.next)))
__CPROVER_ensures(!OVERFLOW(__CPROVER_old(stack->sp), stack) ==>
    (__CPROVER_return_value == ERROR_SUCCESS && stack->sp == __CPROVER_old(stack->sp) + 2))
#if VNEG == 1
__CPROVER_ensures((!OVERFLOW(__CPROVER_old(stack->sp), stack) ) ==> stack->items[stack->sp - 2].i == 0)
#endif
__CPROVER_ensures((!OVERFLOW(__CPROVER_old(stack->sp), stack) &&
     !VS_IS_UNDEF(__CPROVER_old(self->int_enum_it.next)) && !VS_IS_UNDEF(self->int_enum_it.count) &&
     __CPROVER_old(self->int_enum_it.next) < self->int_enum_it.count) ==>
    (stack->items[stack->sp - 2].i == 0 &&
     stack->items[stack->sp - 1].i == self->int_enum_it.items[__CPROVER_old(self->int_enum_it.next)] &&
     self->int_enum_it.next == __CPROVER_old(self->int_enum_it.next) + 1))
__CPROVER_ensures((!OVERFLOW(__CPROVER_old(stack->sp), stack) &&
     !(!VS_IS_UNDEF(__CPROVER_old(self->int_enum_it.next)) && !VS_IS_UNDEF(self->int_enum_it.count) &&
       __CPROVER_old(self->int_enum_it.next) < self->int_enum_it.count)) ==>
    (stack->items[stack->sp - 2].i == 1 && stack->items[stack->sp - 1].i == VS_UNDEF &&
     self->int_enum_it.next == __CPROVER_old(self->int_enum_it.next)))
    /* clang-format on */
    ;
#define FN iter_int_enum_next
#else
static int iter_string_set_next(YR_ITERATOR* self, YR_VALUE_STACK* stack)
    /* clang-format off */
__CPROVER_requires(__CPROVER_is_fresh(self, sizeof(YR_ITERATOR) + ENUM_MAX * sizeof(void*)))
__CPROVER_requires(self->string_set_it.count >= 0 && self->string_set_it.count <= ENUM_MAX && self->string_set_it.index >= 0)
__CPROVER_requires(STACK_PRE(stack))
__CPROVER_requires(__CPROVER_is_fresh(stack->items, stack->capacity * sizeof(YR_VALUE)))
__CPROVER_assigns(stack->sp, self->string_set_it.index, __CPROVER_object_whole(stack->items))
__CPROVER_ensures(OVERFLOW(__CPROVER_old(stack->sp), stack) ==>
    (__CPROVER_return_value == ERROR_EXEC_STACK_OVERFLOW && stack->sp == __CPROVER_old(stack->sp) &&
     self->string_set_it.index == __CPROVER_old(self->string_set_it.index)))
__CPROVER_ensures(!OVERFLOW(__CPROVER_old(stack->sp), stack) ==>
    (__CPROVER_return_value == ERROR_SUCCESS && stack->sp == __CPROVER_old(stack->sp) + 2))
#if VNEG == 1
__CPROVER_ensures((!OVERFLOW(__CPROVER_old(stack->sp), stack) ) ==> stack->items[stack->sp - 2].i == 0)
#endif
__CPROVER_ensures((!OVERFLOW(__CPROVER_old(stack->sp), stack) &&
     __CPROVER_old(self->string_set_it.index) < self->string_set_it.count) ==>
    (stack->items[stack->sp - 2].i == 0 &&
     stack->items[stack->sp - 1].s == self->string_set_it.strings[__CPROVER_old(self->string_set_it.index)] &&
     self->string_set_it.index == __CPROVER_old(self->string_set_it.index) + 1))
__CPROVER_ensures((!OVERFLOW(__CPROVER_old(stack->sp), stack) &&
     !(__CPROVER_old(self->string_set_it.index) < self->string_set_it.count)) ==>
    (stack->items[stack->sp - 2].i == 1 && stack->items[stack->sp - 1].i == VS_UNDEF &&
     self->string_set_it.index == __CPROVER_old(self->string_set_it.index)))
    /* clang-format on */
    ;
#define FN iter_string_set_next
#endif
#endif

#include "/repo/libyara/exec.c"

#ifdef VMODE_CONTRACT
void harness(void)
{
  YR_ITERATOR* self;
  YR_VALUE_STACK* stack;
  FN(self, stack);
}
#else
void harness(void) {}
#endif
