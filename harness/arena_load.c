/* C17 (and C16, C06-style memory safety): the real yr_arena_load_stream() of
 * libyara/arena.c -- together with the real yr_arena_create,
 * yr_arena_allocate_memory, yr_arena_get_ptr, yr_arena_ref_to_ptr,
 * yr_arena_make_ptr_relocatable, yr_arena_release and mem.c -- on an ARBITRARY
 * byte stream that ends (is truncated) at an arbitrary position.
 *
 * Route B (bounded stand-in): the stream is a symbolic byte string of at most
 * STREAM_MAX bytes of which the first `avail` can be read; the header may name
 * up to 16 buffers but the table entries that are actually read are assumed to
 * have size <= BODY_MAX (symbolic-length copies into the arena do not finish
 * in CBMC beyond that, DESIGN.md 7); everything else -- magic, version,
 * counts, offsets, body bytes, relocation entries -- is unconstrained.
 *
 * Stub (trusted): yr_stream_read delivers `count` items of `size` bytes while
 * they are available, a short count afterwards (fread semantics).
 *
 * Obligations
 *   (a) memory safety for every stream: CBMC pointer/bounds checks in the real
 *       code, the assert()s of yr_arena_get_ptr included; no leak on any exit
 *       (ghost heap counter through the real mem.c replaced by counting
 *       wrappers), *arena assigned only on success
 *   (b) classification: short header / bad magic -> INVALID_FILE; other version
 *       -> UNSUPPORTED_FILE_VERSION; > 16 buffers -> INVALID_FILE; short table
 *       or short body -> CORRUPT_FILE
 *   (c) on success every relocated slot lies inside its buffer's used region
 *       and holds NULL or an address inside a used buffer region
 *   (d) [separate, narrow] success  =>  the stream was consumed to a point
 *       where no further byte is available or the rest is shorter than one
 *       relocation entry (what the format can offer; see known finding K1)
 */
#include "vharness.h"
#include <stdlib.h>
#include <string.h>

#ifndef STREAM_MAX
#define STREAM_MAX 64
#endif
#ifndef BODY_MAX
#define BODY_MAX 12
#endif
#ifndef NB
#define NB 1
#endif
#ifndef S0
#define S0 9
#endif
#ifndef S1
#define S1 4
#endif
#define NBUF_MAX (NB <= 16 ? NB : 0)

#ifndef VNATIVE
/* byte-loop memcpy: CBMC's built-in model (array_copy/array_replace) at the
 * symbolic offset b->data + reloc_ref.offset makes the array encoding explode;
 * all copies of the code under analysis have a constant length <= 12 */
void* memcpy(void* dst, const void* src, size_t n)
{
  __CPROVER_assert(n <= 64, "harness bound: memcpy length");
  for (size_t i = 0; i < n; i++)
    ((unsigned char*) dst)[i] = ((const unsigned char*) src)[i];
  return dst;
}
#endif

#include "/repo/libyara/arena.c"

/* ---- allocator over STATIC pools ------------------------------------------
 * Heap objects make CBMC encode every byte access through its array theory, which
 * blows up on this function (DESIGN.md A.5); objects handed out from static pools
 * are field-sensitive and cheap. Each pool slot is handed out once; any allocation
 * may fail (input bit mask); frees are counted. Use-after-free is therefore NOT
 * detectable in this harness (stated in the evidence), out-of-bounds accesses are
 * (every pool slot is a separate static object of the exact size). */
static int g_live;
static uint32_t in_fail_mask; static int g_op;
#define MAYFAIL() ((in_fail_mask >> (g_op++ & 31)) & 1)
static YR_ARENA pool_arena[1]; static int n_arena;
static YR_RELOC pool_reloc[3]; static int n_reloc;
#ifndef SMALL_CAP
#define SMALL_CAP 16
#endif
static uint8_t pool_buf0[SMALL_CAP], pool_buf1[SMALL_CAP]; static int n_buf;
#ifndef VNATIVE
void* yr_malloc(size_t size)
{
  if (MAYFAIL()) return NULL;
  __CPROVER_assert(size == sizeof(YR_RELOC) && n_reloc < 3, "harness bound: only relocation records are malloc'ed, at most 3");
  g_live++;
  return &pool_reloc[n_reloc++];
}
void* yr_calloc(size_t count, size_t size)
{
  if (MAYFAIL()) return NULL;
  __CPROVER_assert(count * size == sizeof(YR_ARENA) && n_arena < 1, "harness bound: one arena");
  memset(&pool_arena[0], 0, sizeof(YR_ARENA));
  g_live++;
  n_arena++;
  return &pool_arena[0];
}
void* yr_realloc(void* ptr, size_t size)
{
  if (MAYFAIL()) return NULL;
  __CPROVER_assert(ptr == NULL && size == SMALL_CAP && n_buf < 2, "harness bound: every buffer allocated once, capacity SMALL_CAP");
  g_live++;
  return n_buf++ == 0 ? pool_buf0 : pool_buf1;
}
void yr_free(void* ptr) { if (ptr) g_live--; }
#else
void* yr_malloc(size_t size) { void* p = malloc(size); if (p) g_live++; return p; }
void* yr_calloc(size_t count, size_t size) { void* p = calloc(count, size); if (p) g_live++; return p; }
void* yr_realloc(void* ptr, size_t size) { void* p = realloc(ptr, size); if (p != NULL && ptr == NULL) g_live++; return p; }
void yr_free(void* ptr) { if (ptr) g_live--; free(ptr); }
#endif

/* ---- arena creation with a small initial capacity ------------------------
 * yr_arena_load_stream asks for 10485-byte buffers; byte arrays of that size
 * make the SAT encoding explode. The runner redirects its call of
 * yr_arena_create to this wrapper (goto-instrument --replace-calls), which
 * calls the real function with capacity SMALL_CAP instead. Behaviour must not
 * depend on the capacity (that is property C19). The native replay uses the
 * real constant. */
#ifndef SMALL_CAP
#define SMALL_CAP 16
#endif
/* same statements as yr_arena_create (arena.c:233-250; that function itself is
 * covered by C19.arena.create) with the capacity replaced */
int vstub_arena_create(uint32_t num_buffers, size_t initial_buffer_size, YR_ARENA** arena)
{
  YR_ARENA* new_arena = (YR_ARENA*) yr_calloc(1, sizeof(YR_ARENA));
  if (new_arena == NULL)
    return ERROR_INSUFFICIENT_MEMORY;
  new_arena->xrefs = 1;
  new_arena->num_buffers = num_buffers;
  new_arena->initial_buffer_size = SMALL_CAP;
  *arena = new_arena;
  return ERROR_SUCCESS;
}

/* ---- registering a relocation slot ----------------------------------------
 * yr_arena_load_stream calls yr_arena_make_ptr_relocatable(arena, id, reloc_ref.offset, EOL)
 * with a 32-bit offset in the variadic part, which _yr_arena_make_ptr_relocatable reads
 * with va_arg(size_t): a type mismatch (undefined in C, harmless under the x86-64 calling
 * convention). CBMC reports the 8-byte read of a 4-byte vararg slot and then marks every
 * later obligation UNKNOWN, so the call is redirected (--replace-calls) to this stub, which
 * reads the argument with its real type and appends the record exactly as the original
 * does (same statements as arena.c:88-107). The mismatch is listed as an observation. */
#include <stdarg.h>
int vstub_make_ptr_relocatable(YR_ARENA* arena, uint32_t buffer_id, ...)
{
  va_list ap;
  va_start(ap, buffer_id);
  yr_arena_off_t offset = va_arg(ap, yr_arena_off_t);
  va_end(ap);
  YR_RELOC* reloc = (YR_RELOC*) yr_malloc(sizeof(YR_RELOC));
  if (reloc == NULL)
    return ERROR_INSUFFICIENT_MEMORY;
  reloc->buffer_id = buffer_id;
  reloc->offset = offset;
  reloc->next = NULL;
  if (arena->reloc_list_head == NULL)
    arena->reloc_list_head = reloc;
  if (arena->reloc_list_tail != NULL)
    arena->reloc_list_tail->next = reloc;
  arena->reloc_list_tail = reloc;
  return ERROR_SUCCESS;
}

/* ---- the stream --------------------------------------------------------- */
static uint8_t in_stream[STREAM_MAX];
static size_t in_avail; /* bytes that can be read before the stream ends */
static size_t g_pos;

/* byte-wise copy with constant loop bounds: CBMC's memcpy model with a symbolic
 * length needs tens of GB here */
#define RD_MAXSIZE 12
_Static_assert(S0 <= RD_MAXSIZE && S1 <= RD_MAXSIZE, "body sizes within the read stub's bound");
#define RD_MAXCOUNT (NBUF_MAX > 1 ? NBUF_MAX : 1)
size_t yr_stream_read(void* ptr, size_t size, size_t count, YR_STREAM* stream)
{
  size_t done = 0;
#ifndef VNATIVE
  __CPROVER_assert(size <= RD_MAXSIZE && count <= RD_MAXCOUNT, "harness bound: item size/count of a stream read");
#endif
  for (int k = 0; k < RD_MAXCOUNT; k++)
  {
    if (!(done < count && size <= in_avail - g_pos))
      break;
#ifndef VNATIVE
    /* typed stores for the three record types the loader reads: a byte-wise
     * store through uint8_t* into the loader's local YR_ARENA_FILE_BUFFER[16]
     * (192 bytes) is encoded by CBMC with its array theory and explodes */
    if (size == sizeof(YR_ARENA_FILE_BUFFER))
    {
      YR_ARENA_FILE_BUFFER rec;
      for (size_t j = 0; j < sizeof rec; j++) ((uint8_t*) &rec)[j] = in_stream[g_pos + j];
      ((YR_ARENA_FILE_BUFFER*) ptr)[done] = rec;
    }
    else if (size == sizeof(YR_ARENA_FILE_HEADER))
    {
      YR_ARENA_FILE_HEADER rec;
      for (size_t j = 0; j < sizeof rec; j++) ((uint8_t*) &rec)[j] = in_stream[g_pos + j];
      ((YR_ARENA_FILE_HEADER*) ptr)[done] = rec;
    }
    else if (size == sizeof(YR_ARENA_REF))
    {
      YR_ARENA_REF rec;
      for (size_t j = 0; j < sizeof rec; j++) ((uint8_t*) &rec)[j] = in_stream[g_pos + j];
      ((YR_ARENA_REF*) ptr)[done] = rec;
    }
    else
#endif
    for (size_t j = 0; j < RD_MAXSIZE; j++)
      if (j < size)
        ((uint8_t*) ptr)[done * size + j] = in_stream[g_pos + j];
    g_pos += size;
    done++;
  }
  return done;
}

#if VNEG == 1
#define EXPECT_SHORT_HDR ERROR_CORRUPT_FILE /* wrong on purpose */
#else
#define EXPECT_SHORT_HDR ERROR_INVALID_FILE
#endif

void harness(void)
{
  V_IN_ARR(uint8_t, stream_bytes, STREAM_MAX);
  /* the truncation point is concrete per run (-DAVAIL=n, swept exhaustively over
   * 0..STREAM_MAX by the runner): with a symbolic cut the stream position is
   * symbolic in every copy and CBMC's array encoding explodes */
#ifdef SW
  /* SW = 4 * cut position + selector of the relocation entries' buffer id */
  size_t avail = (SW) / 4;
  {
    static const uint32_t bid_choice[4] = {0, 1, 16, 0x80000001u};
    /* buffer id of both relocation entries concrete: a symbolic id makes
     * &arena->buffers[id] a pointer to anywhere in the arena object */
    size_t rb = 6 + 12 * (size_t) NBUF_MAX + (NBUF_MAX > 0 ? S0 : 0) + (NBUF_MAX > 1 ? S1 : 0);
    if (rb + 4 <= STREAM_MAX) memcpy(stream_bytes + rb, &bid_choice[(SW) % 4], 4);
    if (rb + 12 <= STREAM_MAX) memcpy(stream_bytes + rb + 8, &bid_choice[(SW) % 4], 4);
  }
#elif defined(AVAIL)
  size_t avail = AVAIL;
#else
  V_IN(size_t, avail);
#endif
  V_ASSUME(avail <= STREAM_MAX);
  memcpy(in_stream, stream_bytes, STREAM_MAX);
  in_avail = avail;
  g_pos = 0;
  g_live = 0;
  V_IN(uint32_t, fail_mask);
  in_fail_mask = fail_mask; g_op = 0;

  /* the part of the input space this stand-in covers */
  /* the buffer count is concrete per target (-DNB=0,1,2,17,200): with a symbolic
   * count every buffer loop is unrolled 17 times on every path and symex does
   * not finish */
  in_stream[5] = NB;
  uint8_t nb = in_stream[5];
  /* body sizes are concrete per target as well (-DS0, -DS1): with symbolic sizes
   * every later stream/arena index is symbolic and the array encoding explodes */
  {
    static const uint32_t body_size[2] = {S0, S1};
    for (int i = 0; i < NBUF_MAX; i++)
      memcpy(in_stream + 6 + 12 * i + 8, &body_size[i], 4);
  }

  YR_ARENA* arena = (YR_ARENA*) &g_live; /* sentinel: must stay untouched on error */
  YR_STREAM st;
  st.user_data = NULL;
  st.read = NULL;
  st.write = NULL;

  int rc = yr_arena_load_stream(&st, &arena);

  size_t table_end = 6 + 12 * (size_t) nb;
  int magic_ok = in_stream[0] == 'Y' && in_stream[1] == 'A' && in_stream[2] == 'R' && in_stream[3] == 'A';

  /* (b) classification of damaged headers / tables / bodies */
  if (avail < 6)
    V_ASSERT(rc == EXPECT_SHORT_HDR, "b.short_header_is_invalid_file");
  else if (!magic_ok)
    V_ASSERT(rc == ERROR_INVALID_FILE, "b.bad_magic_is_invalid_file");
  else if (in_stream[4] != YR_ARENA_FILE_VERSION)
    V_ASSERT(rc == ERROR_UNSUPPORTED_FILE_VERSION, "b.other_version_is_unsupported");
  else if (nb > YR_MAX_ARENA_BUFFERS)
    V_ASSERT(rc == ERROR_INVALID_FILE, "b.too_many_buffers_is_invalid_file");
  else if (avail < table_end)
    V_ASSERT(rc == ERROR_CORRUPT_FILE, "b.short_table_is_corrupt_file");
  else
  {
    size_t bodies = 0;
    for (int i = 0; i < NBUF_MAX; i++)
      if (i < nb)
      {
        uint32_t sz;
        memcpy(&sz, in_stream + 6 + 12 * i + 8, 4);
        bodies += sz;
      }
    V_REACH(2);
    if (avail < table_end + bodies)
      V_ASSERT(rc == ERROR_CORRUPT_FILE || rc == ERROR_INSUFFICIENT_MEMORY, "b.short_body_is_corrupt_file");
    else
      V_ASSERT(rc == ERROR_SUCCESS || rc == ERROR_CORRUPT_FILE || rc == ERROR_INSUFFICIENT_MEMORY, "b.result_code");
  }

  if (rc != ERROR_SUCCESS)
  {
    /* (a) nothing returned, nothing leaked */
    V_ASSERT(arena == (YR_ARENA*) &g_live, "a.no_arena_returned_on_error");
    V_ASSERT(g_live == 0, "a.no_leak_on_error");
    return;
  }
  V_REACH(3);

  /* (c) every relocated slot is inside its buffer and holds NULL or an arena address.
   * Known finding KF-C17-2 (separate, narrow obligation): two relocation entries whose
   * 8-byte slots OVERLAP (or coincide) are accepted; converting the second slot then
   * overwrites part of the pointer stored in the first one. */
  int overlap = 0;
  for (YR_RELOC* r = arena->reloc_list_head; r != NULL; r = r->next)
    for (YR_RELOC* q = r->next; q != NULL; q = q->next)
      if (q->buffer_id == r->buffer_id &&
          (q->offset > r->offset ? q->offset - r->offset : r->offset - q->offset) < sizeof(void*))
        overlap = 1;
  int all_ok = 1;
  for (YR_RELOC* r = arena->reloc_list_head; r != NULL; r = r->next)
  {
    V_ASSERT(r->buffer_id < arena->num_buffers, "c.slot_buffer_exists");
    YR_ARENA_BUFFER* b = &arena->buffers[r->buffer_id];
    V_ASSERT(b->data != NULL && (size_t) r->offset + sizeof(void*) <= b->used, "c.slot_inside_used_region");
    void* target;
    memcpy(&target, b->data + r->offset, sizeof target);
    int ok = (target == NULL);
    for (uint32_t i = 0; i < NBUF_MAX; i++)
      if (i < arena->num_buffers && arena->buffers[i].data != NULL &&
          /* integer comparison of addresses (the slot content is arbitrary) */
          (uintptr_t) target >= (uintptr_t) arena->buffers[i].data &&
          (uintptr_t) target <= (uintptr_t) arena->buffers[i].data + arena->buffers[i].used)
        ok = 1;
    if (!ok) all_ok = 0;
  }
  if (overlap)
    V_ASSERT(all_ok, "KF2.overlapping_relocation_slots_accepted");
  else
    V_ASSERT(all_ok, "c.slot_holds_null_or_arena_address");
#if KNOWN_K1
  /* (d) narrow: a successfully loaded stream was not cut inside the relocation table */
  V_ASSERT((avail - g_pos) < sizeof(YR_ARENA_REF) && (avail - g_pos) == 0, "d.truncation_in_reloc_section_rejected");
#endif
  yr_arena_release(arena);
  V_ASSERT(g_live == 0, "a.arena_released_completely");
}
