/* C19 / C03: _yr_re_emit (libyara/re.c) for a counted repeat e{n,m} of a literal, against a code
 * section that RELOCATES ON EVERY WRITE (each yr_arena_write_data moves the buffer to a fresh
 * allocation and frees the old one -- the worst case of "any initial capacity").
 *   - no pointer into the section may be used across a write: a stale pointer dereferences a
 *     deallocated object (CBMC pointer check on the real code);
 *   - the emitted code is exactly the documented layout (re.c:1007, prolog / repeat / split /
 *     epilog table) and every offset is patched IN THE CURRENT BUFFER:
 *       split.offset        = distance from the split to the end of the epilog,
 *       repeat_start.offset = distance from REPEAT_START to the instruction after REPEAT_END,
 *       repeat_end.offset   = -(size of the repeated body),
 *       repeat min/max per the table;
 * RNM = 10*n + m (swept) for e{n,m}; greedy and the literal are symbolic. Route B (shape bound:
 * child is one LITERAL node; n <= m <= 5).
 * Stubs (trusted): yr_arena_write_data / yr_arena_ref_to_ptr / yr_arena_get_current_offset on a
 * one-buffer model of YR_RE_CODE_SECTION.
 */
#include "vharness.h"
#include <string.h>
#include <stdlib.h>

#include <yara/arena.h>
#include <yara/error.h>

static uint8_t* g_code;
static size_t g_used;
int yr_isalnum(const uint8_t* s) { return 0; }
void* yr_malloc(size_t n) { return malloc(n); }
int yr_arena_write_data(YR_ARENA* arena, uint32_t buffer_id, const void* data, size_t size, YR_ARENA_REF* ref)
{
  uint8_t* n = malloc(g_used + size);
#ifndef VNATIVE
  __CPROVER_assume(n != NULL);
#endif
  for (size_t i = 0; i < 48; i++) if (i < g_used) n[i] = g_code[i];
  free(g_code); /* the buffer moved */
  g_code = n;
  memcpy(g_code + g_used, data, size);
  if (ref != NULL) { ref->buffer_id = buffer_id; ref->offset = (yr_arena_off_t) g_used; }
  g_used += size;
  return ERROR_SUCCESS;
}
void* yr_arena_ref_to_ptr(YR_ARENA* arena, YR_ARENA_REF* ref) { return g_code + ref->offset; }
yr_arena_off_t yr_arena_get_current_offset(YR_ARENA* arena, uint32_t buffer_id) { return (yr_arena_off_t) g_used; }

#include "/repo/libyara/re.c"

#ifndef RNM
#define RNM 13
#endif
#define RN ((RNM) / 10)
#define RM ((RNM) % 10)

static RE_NODE range_node, lit_node;
static RE_EMIT_CONTEXT ec;

void harness(void)
{
  V_IN(uint8_t, value);
  V_IN(uint8_t, greedy);
  V_IN(uint8_t, split_id0);
  _Static_assert(RN <= RM && RM <= 5 && RM >= 1, "e{n,m} with n <= m, m >= 1");
  V_ASSUME(split_id0 < RE_MAX_SPLIT_ID);

  memset(&range_node, 0, sizeof range_node); memset(&lit_node, 0, sizeof lit_node);
  lit_node.type = RE_NODE_LITERAL; lit_node.value = value; lit_node.mask = 0xFF;
  range_node.type = RE_NODE_RANGE; range_node.start = RN; range_node.end = RM; range_node.greedy = greedy != 0;
  range_node.children_head = range_node.children_tail = &lit_node;
  g_used = 0; g_code = malloc(1);
  V_ASSUME(g_code != NULL);
  ec.arena = NULL; ec.next_split_id = split_id0;
  YR_ARENA_REF first;

  int rc = _yr_re_emit(&ec, &range_node, 0, &first);

  V_ASSERT(rc == ERROR_SUCCESS, "success");
  /* the documented layout */
  const int has_prolog = RN > 0, has_repeat = (RM > RN + 1) || RM > 2, has_split = RM > RN, has_epilog = (RM > RN) || RM > 1;
  int rmin = RN, rmax = RM;
  if (has_prolog) { rmin--; rmax--; }
  if (has_split) rmax--; else { rmin--; rmax--; }
  size_t p = 0;
  if (has_prolog)
  {
    V_ASSERT(g_code[p] == RE_OPCODE_LITERAL && g_code[p + 1] == value, "layout.prolog");
    p += 2;
  }
  if (has_repeat)
  {
    V_REACH(3);
    RE_REPEAT_ARGS a, b;
    memcpy(&a, g_code + p + 1, sizeof a);
    memcpy(&b, g_code + p + 1 + sizeof a + 2 + 1, sizeof b);
    V_ASSERT(g_code[p] == (greedy ? RE_OPCODE_REPEAT_START_GREEDY : RE_OPCODE_REPEAT_START_UNGREEDY), "layout.repeat_start");
    V_ASSERT(g_code[p + 1 + sizeof a] == RE_OPCODE_LITERAL && g_code[p + 2 + sizeof a] == value, "layout.repeat_body");
    V_ASSERT(g_code[p + 3 + sizeof a] == (greedy ? RE_OPCODE_REPEAT_END_GREEDY : RE_OPCODE_REPEAT_END_UNGREEDY), "layout.repeat_end");
    V_ASSERT(a.min == rmin && a.max == rmax && b.min == rmin && b.max == rmax, "repeat.bounds_per_the_table");
    V_ASSERT(a.offset == (int32_t) (2 * (1 + sizeof a) + 2), "repeat.start_offset_points_past_repeat_end");
#if VNEG == 1
    V_ASSERT(b.offset == -(int32_t) (2 + 1 + sizeof b), "neg");
#endif
    V_ASSERT(b.offset == -2, "repeat.end_offset_is_minus_the_body_size");
    p += 2 * (1 + sizeof a) + 2;
  }
  if (has_split)
  {
    V_REACH(4);
    int16_t off;
    memcpy(&off, g_code + p + 2, 2);
    V_ASSERT(g_code[p] == (greedy ? RE_OPCODE_SPLIT_A : RE_OPCODE_SPLIT_B) && g_code[p + 1] == split_id0, "layout.split");
#if VNEG == 2
    V_ASSERT(off == 0, "neg");
#endif
    V_ASSERT(off == 4 + (has_epilog ? 2 : 0), "split.offset_patched_in_the_current_buffer");
    V_ASSERT(ec.next_split_id == split_id0 + 1, "split.id_consumed");
    p += 4;
  }
  if (has_epilog)
  {
    V_ASSERT(g_code[p] == RE_OPCODE_LITERAL && g_code[p + 1] == value, "layout.epilog");
    p += 2;
  }
  V_ASSERT(g_used == p, "layout.nothing_else_emitted");
  free(g_code);
}
