/* C13 / C10: the thin entry points of libyara/scanner.c around yr_scanner_scan_mem_blocks.
 *   WSEL 1  yr_scanner_scan_mem   one block (base 0, size n, data = the caller's buffer),
 *                                 iterator last_error SUCCESS, exactly one core call, its
 *                                 result returned (C13: every entry point scans the same bytes)
 *   WSEL 2  yr_scanner_scan_file  the mapped (data, size) handed on unchanged, unmapped exactly
 *   WSEL 3  yr_scanner_scan_fd    once on every path, error of the mapping / scan returned
 *   WSEL 4  yr_scanner_scan_proc  PROCESS_MEMORY flag set only DURING the core call and the
 *                                 previous flags restored on EVERY path (C10: no scan leaves
 *                                 a trace in the scanner); iterator closed exactly once
 * Loop-free code, all scalars symbolic (route P). The inner calls are replaced by recording
 * stubs with goto-instrument --replace-calls (same translation unit): no native build.
 */
#include "vharness.h"
#include <string.h>
#include <stdlib.h>

#include "/repo/libyara/scanner.c"

static int in_core_rc, in_map_rc, in_open_rc, in_cb_answer;
static int g_core_calls, g_unmaps, g_closes, g_opens, g_maps;
static int g_flags_during;
static const uint8_t* g_seen_data; static size_t g_seen_size; static uint64_t g_seen_base;
static int g_seen_last_error, g_seen_next_null, g_seen_fsize_ok;
static YR_SCANNER sc;
static uint8_t filedata[4];

int vstub_scan_blocks(YR_SCANNER* scanner, YR_MEMORY_BLOCK_ITERATOR* it)
{
  g_core_calls++;
  g_flags_during = scanner->flags;
  g_seen_last_error = it->last_error;
  if (it->first != NULL)
  {
    YR_MEMORY_BLOCK* b = it->first(it);
    if (b != NULL)
    {
      g_seen_data = b->fetch_data(b); g_seen_size = b->size; g_seen_base = b->base;
      g_seen_next_null = (it->next(it) == NULL);
      g_seen_fsize_ok = (it->file_size != NULL && it->file_size(it) == b->size);
    }
  }
  return in_core_rc;
}
int vstub_scan_mem(YR_SCANNER* scanner, const uint8_t* buffer, size_t size)
{
  g_core_calls++;
  g_seen_data = buffer; g_seen_size = size;
  return in_core_rc;
}
int yr_filemap_map(const char* file_path, YR_MAPPED_FILE* pmapped_file)
{
  g_maps++;
  if (in_map_rc != ERROR_SUCCESS) return in_map_rc;
  pmapped_file->data = filedata; pmapped_file->size = 4;
  return ERROR_SUCCESS;
}
int yr_filemap_map_fd(YR_FILE_DESCRIPTOR file, uint64_t offset, size_t size, YR_MAPPED_FILE* pmapped_file)
{
  g_maps++;
  if (in_map_rc != ERROR_SUCCESS) return in_map_rc;
  pmapped_file->data = filedata; pmapped_file->size = 4;
  return ERROR_SUCCESS;
}
void yr_filemap_unmap(YR_MAPPED_FILE* pmapped_file) { g_unmaps++; }
void yr_filemap_unmap_fd(YR_MAPPED_FILE* pmapped_file) { g_unmaps++; }
static YR_MEMORY_BLOCK* p_first(YR_MEMORY_BLOCK_ITERATOR* it) { return NULL; }
int yr_process_open_iterator(int pid, YR_MEMORY_BLOCK_ITERATOR* iterator)
{
  g_opens++;
  if (in_open_rc != ERROR_SUCCESS) return in_open_rc;
  iterator->first = p_first; iterator->next = p_first; iterator->file_size = NULL; iterator->last_error = ERROR_SUCCESS;
  return ERROR_SUCCESS;
}
int yr_process_close_iterator(YR_MEMORY_BLOCK_ITERATOR* iterator) { g_closes++; return ERROR_SUCCESS; }
static int cb_calls;
static int the_cb(YR_SCAN_CONTEXT* c, int message, void* d, void* u) { cb_calls++; return in_cb_answer; }

void harness(void)
{
  V_IN(int, core_rc);
  V_IN(int, map_rc);
  V_IN(int, open_rc);
  V_IN(int, flags0);
  V_IN(size_t, size);
  V_IN(uint32_t, root_match);
  V_IN(int, cb_answer);
  static YR_RULES rules; static uint32_t mtab[1]; static YR_AC_MATCH pool[1];
  in_core_rc = core_rc; in_map_rc = map_rc; in_open_rc = open_rc; in_cb_answer = cb_answer;
  g_core_calls = g_unmaps = g_closes = g_opens = g_maps = cb_calls = 0;
  g_seen_data = NULL; g_seen_size = 0;
  memset(&sc, 0, sizeof sc);
  sc.flags = flags0; sc.rules = &rules; sc.callback = the_cb;
  mtab[0] = root_match; rules.ac_match_table = mtab; rules.ac_match_pool = pool;
  static uint8_t buf[4];

#if WSEL == 1
  int rc = yr_scanner_scan_mem(&sc, buf, size);
  int slow_warning = root_match != 0 && size > YR_FILE_SIZE_THRESHOLD;
  if (slow_warning && cb_answer != CALLBACK_CONTINUE)
  {
    V_ASSERT(rc == ERROR_TOO_SLOW_SCANNING && g_core_calls == 0 && cb_calls == 1, "slow_scan_warning_refused");
    return;
  }
  V_REACH(3);
  V_ASSERT(g_core_calls == 1 && rc == core_rc, "one_core_scan_result_returned");
  V_ASSERT(g_seen_data == buf && g_seen_size == size && g_seen_base == 0, "single_block_is_the_callers_buffer");
  V_ASSERT(g_seen_last_error == ERROR_SUCCESS && g_seen_next_null && g_seen_fsize_ok, "iterator_presents_exactly_one_block");
#elif WSEL == 2 || WSEL == 3
#if WSEL == 2
  int rc = yr_scanner_scan_file(&sc, "f");
#else
  int rc = yr_scanner_scan_fd(&sc, 3);
#endif
  V_ASSERT(g_maps == 1, "mapped_once");
  if (map_rc != ERROR_SUCCESS)
  {
    V_ASSERT(rc == map_rc && g_core_calls == 0 && g_unmaps == 0, "mapping_error_returned");
    return;
  }
  V_REACH(3);
#if VNEG == 1
  V_ASSERT(g_unmaps == 0, "neg");
#endif
  V_ASSERT(g_core_calls == 1 && rc == core_rc && g_unmaps == 1, "scanned_once_unmapped_once");
  V_ASSERT(g_seen_data == filedata && g_seen_size == 4, "mapped_bytes_handed_on_unchanged");
#else
  int rc = yr_scanner_scan_proc(&sc, 42);
  V_ASSERT(g_opens == 1, "opened_once");
  V_ASSERT(sc.flags == flags0, "scanner_flags_restored_on_every_path");
  if (open_rc != ERROR_SUCCESS)
  {
    V_ASSERT(rc == open_rc && g_core_calls == 0 && g_closes == 0, "open_error_returned");
    return;
  }
  V_REACH(3);
#if VNEG == 1
  V_ASSERT(g_flags_during == flags0, "neg");
#endif
  V_ASSERT(g_core_calls == 1 && rc == core_rc && g_closes == 1, "scanned_once_closed_once");
  V_ASSERT(g_flags_during == (flags0 | SCAN_FLAGS_PROCESS_MEMORY), "process_memory_flag_set_during_the_scan_only");
#endif
}
