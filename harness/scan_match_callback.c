/* C01: _yr_scan_match_callback (libyara/scan.c), non-chained strings: the `fullword` filter
 * and the match record.
 * Documented semantics (writingrules.rst, "Searching for full words"): a fullword string
 * matches only if it is delimited by non-alphanumeric characters; for `wide` strings the
 * neighbouring CHARACTER is two bytes (alnum, 0). A neighbour exists only if it lies
 * completely inside the scanned data.
 *   W  the match is dropped iff full_word and (the character before starts at offset >= 0
 *      and is alphanumeric) or (the character after lies inside the data and is alphanumeric)
 *   M  otherwise exactly one match is recorded: base, offset, total length
 *      (backward + forward part), xor key, private flag, the first
 *      min(length, max_match_data) bytes as snippet; the rule is marked for evaluation;
 *      every read of a neighbour stays inside [data, data + data_size)
 * Route B: data of exactly DATA_N bytes (sweep 1..8 would be possible; 8 here), all
 * byte values, any match position/length inside it. Static objects only.
 */
#include "vharness.h"
#include <string.h>
#include <stdlib.h>

#include "/repo/libyara/scan.c"

#define DATA_N 8
YR_API int yr_get_configuration_uint32(YR_CONFIG_NAME name, uint32_t* dest) { *dest = 4; return ERROR_SUCCESS; }
static YR_MATCH pool_match; static uint8_t pool_snip[8]; static int g_allocs, in_alloc_fail_at;
void* yr_notebook_alloc(YR_NOTEBOOK* nb, size_t size)
{
  int k = g_allocs++;
  if (k == in_alloc_fail_at) return NULL;
  return k == 0 ? (void*) &pool_match : (void*) pool_snip;
}
static int alnum(uint8_t c) { return (c >= '0' && c <= '9') || (c >= 'a' && c <= 'z') || (c >= 'A' && c <= 'Z'); }
int yr_isalnum(const uint8_t* s) { return alnum(*s); }

void harness(void)
{
  V_IN_ARR(uint8_t, bytes, DATA_N);
  V_IN(uint8_t, off);
  V_IN(uint8_t, back);   /* backward part (match_length argument) */
  V_IN(uint8_t, fwd);    /* forward part */
  V_IN(uint8_t, wide);
  V_IN(uint8_t, full_word);
  V_IN(uint8_t, xor_key);
  V_IN(uint8_t, is_private);
  V_IN(int8_t, alloc_fail_at);

  static uint8_t data[DATA_N];
  static YR_STRING str[1];
  static YR_SCAN_CONTEXT ctx;
  static YR_MATCHES lists[1], ulists[1];
  static YR_BITMASK req[1];
  for (int i = 0; i < DATA_N; i++) data[i] = bytes[i];
  uint32_t len = (uint32_t) back + fwd;
  V_ASSUME(len >= 1 && off + len <= DATA_N && wide <= 1 && full_word <= 1 && is_private <= 1);
  V_ASSUME(alloc_fail_at >= -1 && alloc_fail_at <= 1);
  memset(str, 0, sizeof str);
  str[0].flags = is_private ? STRING_FLAGS_PRIVATE : 0;
  str[0].idx = 0; str[0].rule_idx = 3;
  memset(&ctx, 0, sizeof ctx); memset(lists, 0, sizeof lists); memset(ulists, 0, sizeof ulists);
  ctx.matches = lists; ctx.unconfirmed_matches = ulists; ctx.required_eval = req; req[0] = 0;
  CALLBACK_ARGS args;
  args.string = &str[0]; args.context = &ctx; args.data = data; args.data_size = DATA_N; args.data_base = 1000;
  args.forward_matches = fwd; args.full_word = full_word; args.xor_key = xor_key;
  g_allocs = 0; in_alloc_fail_at = alloc_fail_at;

  int rc = _yr_scan_match_callback(data + off, back, wide ? RE_FLAGS_WIDE : 0, &args);

  int before = 0, after = 0;
  if (wide)
  {
    before = off >= 2 && data[off - 1] == 0 && alnum(data[off - 2]);
#if VNEG == 1
    after = off + len + 2 < DATA_N && data[off + len + 1] == 0 && alnum(data[off + len]); /* wrong on purpose */
#else
    after = off + len + 1 < DATA_N && data[off + len + 1] == 0 && alnum(data[off + len]);
#endif
  }
  else
  {
    before = off >= 1 && alnum(data[off - 1]);
    after = off + len < DATA_N && alnum(data[off + len]);
  }
  int dropped = full_word && (before || after);
  if (dropped)
  {
    V_REACH(3);
    V_ASSERT(rc == ERROR_SUCCESS && lists[0].count == 0 && lists[0].head == NULL && g_allocs == 0, "W.not_a_full_word_is_dropped");
    return;
  }
  if (rc != ERROR_SUCCESS)
  {
    V_ASSERT(rc == ERROR_INSUFFICIENT_MEMORY && alloc_fail_at >= 0, "only_documented_error");
    return;
  }
  V_REACH(4);
  V_ASSERT(lists[0].count == 1 && lists[0].head == &pool_match && lists[0].tail == &pool_match, "M.exactly_one_match_recorded");
  V_ASSERT(pool_match.base == 1000 && pool_match.offset == off && pool_match.match_length == (int32_t) len, "M.base_offset_length");
  V_ASSERT(pool_match.xor_key == xor_key && pool_match.is_private == (is_private != 0), "M.key_and_private_flag");
  uint32_t sn = len < 4 ? len : 4;
  V_ASSERT(pool_match.data_length == (int32_t) sn && pool_match.data == pool_snip, "M.snippet_length");
  for (uint32_t i = 0; i < 4; i++) if (i < sn) V_ASSERT(pool_snip[i] == data[off + i], "M.snippet_bytes");
  V_ASSERT(req[0] == ((YR_BITMASK) 1 << 3), "M.rule_marked_for_evaluation");
  V_ASSERT(ulists[0].head == NULL, "M.no_unconfirmed_match");
}
