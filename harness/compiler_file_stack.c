/* C07 / C15 / C16: _yr_compiler_push_file_name / _yr_compiler_pop_file_name
 * (libyara/compiler.c): the include-file name stack of the compiler.
 *
 * Representation invariant  I: 0 <= file_name_stack_ptr <= YR_MAX_INCLUDE_DEPTH (16)
 * and slots [0, ptr) hold strings. Both operations are proved to preserve I from
 * an ARBITRARY state satisfying I (inductive, so it holds after any sequence of
 * includes), and:
 *   push: name already on the stack  -> ERROR_INCLUDES_CIRCULAR_REFERENCE, nothing changed
 *         stack full (ptr == 16)     -> ERROR_INCLUDE_DEPTH_EXCEEDED, nothing changed (C15)
 *         copy cannot be allocated   -> ERROR_INSUFFICIENT_MEMORY, nothing changed (C16)
 *         otherwise                  -> slot ptr holds a copy, ptr+1, lower slots unchanged
 *   pop:  ptr > 0 -> top slot freed exactly once and cleared, ptr-1; ptr == 0 -> no effect
 * Loop bound = the code constant YR_MAX_INCLUDE_DEPTH (complete unwinding);
 * file names are 1-character strings (all byte values) -- the comparison itself
 * is libc strcmp.
 */
#include "vharness.h"
#include <string.h>
#include <stdlib.h>

#include "/repo/libyara/compiler.c"

static int g_free_calls, g_strdup_fails;
static void* g_freed;
static char dupbuf[2];
void yr_free(void* p) { g_free_calls++; g_freed = p; }
char* yr_strdup(const char* s)
{
  if (g_strdup_fails) return NULL;
  dupbuf[0] = s[0]; dupbuf[1] = 0;
  return dupbuf;
}

#define D YR_MAX_INCLUDE_DEPTH

void harness(void)
{
  V_IN(int, ptr);
  V_IN_ARR(uint8_t, names, D);
  V_IN(uint8_t, newname);
  V_IN(uint8_t, strdup_fails);
  V_IN(uint8_t, do_pop);

  static char namebuf[D][2];
  YR_COMPILER* c = malloc(sizeof(YR_COMPILER));
  V_ASSUME(c != NULL);
  V_ASSUME(ptr >= 0 && ptr <= D); /* invariant I */
  V_ASSUME(newname != 0);
  char* before[D];
  for (int i = 0; i < D; i++)
  {
    V_ASSUME(names[i] != 0);
    namebuf[i][0] = (char) names[i]; namebuf[i][1] = 0;
    c->file_name_stack[i] = i < ptr ? namebuf[i] : NULL;
    before[i] = c->file_name_stack[i];
  }
  c->file_name_stack_ptr = ptr;
  g_free_calls = 0; g_freed = NULL; g_strdup_fails = strdup_fails;
  char nn[2] = {(char) newname, 0};

  if (do_pop)
  {
    _yr_compiler_pop_file_name(c);
    V_ASSERT(c->file_name_stack_ptr >= 0 && c->file_name_stack_ptr <= D, "pop.invariant_preserved");
    if (ptr > 0)
    {
      V_ASSERT(c->file_name_stack_ptr == ptr - 1, "pop.one_level");
      V_ASSERT(g_free_calls == 1 && g_freed == before[ptr - 1], "pop.top_name_freed_exactly_once");
      V_ASSERT(c->file_name_stack[ptr - 1] == NULL, "pop.slot_cleared");
    }
    else
      V_ASSERT(c->file_name_stack_ptr == 0 && g_free_calls == 0, "pop.empty_stack_no_effect");
    for (int i = 0; i < D; i++)
      if (i != ptr - 1) V_ASSERT(c->file_name_stack[i] == before[i], "pop.other_slots_unchanged");
    return;
  }

  int rc = _yr_compiler_push_file_name(c, nn);

  V_ASSERT(c->file_name_stack_ptr >= 0 && c->file_name_stack_ptr <= D, "push.invariant_preserved");
  int circular = 0;
  for (int i = 0; i < D; i++)
    if (i < ptr && names[i] == newname) circular = 1;
  for (int i = 0; i < D; i++)
    if (i != ptr) V_ASSERT(c->file_name_stack[i] == before[i], "push.other_slots_unchanged");
  if (circular)
  {
    V_REACH(3);
    V_ASSERT(rc == ERROR_INCLUDES_CIRCULAR_REFERENCE, "push.circular_include_reported");
  }
#if VNEG == 1
  else if (ptr > D)
#else
  else if (ptr == D)
#endif
  {
    V_REACH(4);
    V_ASSERT(rc == ERROR_INCLUDE_DEPTH_EXCEEDED, "push.depth_limit_reported");
  }
  else if (strdup_fails)
    V_ASSERT(rc == ERROR_INSUFFICIENT_MEMORY, "push.allocation_failure_reported");
  else
  {
    V_REACH(5);
    V_ASSERT(rc == ERROR_SUCCESS, "push.success");
    V_ASSERT(c->file_name_stack_ptr == ptr + 1, "push.one_level");
    V_ASSERT(c->file_name_stack[ptr] == dupbuf && dupbuf[0] == (char) newname, "push.copy_of_name_on_top");
  }
  if (rc != ERROR_SUCCESS)
  {
    V_ASSERT(c->file_name_stack_ptr == ptr, "push.error_changes_nothing");
    if (ptr < D) V_ASSERT(c->file_name_stack[ptr] == before[ptr], "push.error_changes_nothing.slot");
  }
  V_ASSERT(g_free_calls == 0, "push.frees_nothing");
}
