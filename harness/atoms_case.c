/* C01: _yr_atoms_case_combinations / _yr_atoms_case_insensitive (libyara/atoms.c).
 *
 * A nocase string is found through its atom only if EVERY upper/lower-case
 * variant of the atom is in the automaton. Contract on the combination generator
 * (atom of 1..YR_MAX_ATOM_LENGTH arbitrary bytes):
 *   complete   for every non-empty subset m of the atom's ASCII-letter positions
 *              the atom with exactly those letters case-swapped is in the output
 *              (ghost m: "for every variant")
 *   sound      every emitted atom has the atom's length and differs from it only
 *              by the case of ASCII letters
 *   count      2^k - 1 entries for k letters, then the 0 terminator
 *   safe       all writes inside the CASE_COMBINATIONS_BUFFER_SIZE buffer the
 *              only caller provides
 * Recursion depth and loops are bounded by the code constant
 * YR_MAX_ATOM_LENGTH = 4 (complete unwinding, route P).
 */
#include "vharness.h"
#include <string.h>
#include <stdlib.h>

#include "/repo/libyara/atoms.c"

static int is_letter(uint8_t c)
{
#if VNEG == 1
  return (c >= 'a' && c <= 'z') || (c >= 'A' && c < 'Z'); /* wrong on purpose */
#else
  return (c >= 'a' && c <= 'z') || (c >= 'A' && c <= 'Z');
#endif
}

void harness(void)
{
  V_IN_ARR(uint8_t, atom, YR_MAX_ATOM_LENGTH);
  /* the atom length is concrete per run (-DLEN=1..4, swept by the runner): with a
   * symbolic length CBMC unrolls the double recursion to the unwind depth on
   * every path */
  uint8_t len = LEN;
  V_IN(uint8_t, m); /* ghost: subset of positions to swap */

  uint8_t* out = malloc(CASE_COMBINATIONS_BUFFER_SIZE);
  V_ASSUME(out != NULL);
  uint8_t orig[YR_MAX_ATOM_LENGTH];
  memcpy(orig, atom, sizeof orig);

  uint8_t* end = _yr_atoms_case_combinations(atom, len, 0, out);

  V_ASSERT(memcmp(orig, atom, sizeof orig) == 0, "frame.input_atom_unchanged");
  V_ASSERT(end >= out && end < out + CASE_COMBINATIONS_BUFFER_SIZE && *end == 0, "terminated_inside_buffer");

  int k = 0;
  for (int i = 0; i < YR_MAX_ATOM_LENGTH; i++)
    if (i < len && is_letter(orig[i])) k++;

  /* the variant selected by the ghost mask */
  uint8_t want[YR_MAX_ATOM_LENGTH];
  int m_ok = (m != 0) && (m < (1 << YR_MAX_ATOM_LENGTH));
  for (int i = 0; i < YR_MAX_ATOM_LENGTH; i++)
  {
    want[i] = orig[i];
    if ((m >> i) & 1)
    {
      if (i < len && is_letter(orig[i])) want[i] = orig[i] ^ 0x20;
      else m_ok = 0;
    }
  }

  int n = 0, found = 0;
  uint8_t* p = out;
  for (int e = 0; e < (1 << YR_MAX_ATOM_LENGTH); e++)
  {
    if (*p == 0) break;
    V_ASSERT(*p == len, "sound.entry_has_atom_length");
    int same = 1;
    for (int i = 0; i < YR_MAX_ATOM_LENGTH; i++)
      if (i < len)
      {
        uint8_t c = p[1 + i];
        V_ASSERT(c == orig[i] || (is_letter(orig[i]) && c == (orig[i] ^ 0x20)), "sound.entry_differs_only_in_letter_case");
        if (c != want[i]) same = 0;
      }
    if (same) found = 1;
    n++;
    p += 1 + len;
  }
  V_ASSERT(p == end, "count.list_ends_at_returned_cursor");
  V_ASSERT(n == (1 << k) - 1, "count.two_to_the_k_minus_one_variants");
  if (m_ok)
  {
    V_REACH(3);
    V_ASSERT(found, "complete.every_case_variant_is_emitted");
  }
  free(out);
}
