/* C04: string-match operators of the real yr_execute_code() (see exec_match part below).
 * Prologue (stubs) shared with exec_ops.c: the real yr_execute_code() on a fixed micro-program
 * whose operands are fully symbolic ("M" route: bounded in program shape,
 * complete over all 2^64 operand values).
 *
 *   program (binary op):  INIT_RULE 0 ; PUSH a ; PUSH b ; <op> ; PUSH c ;
 *                         INT_EQ ; MATCH_RULE 0 ; HALT
 *   program (unary op):   INIT_RULE 0 ; PUSH a ; <op> ; PUSH c ; INT_EQ ; ...
 *   SHAPE=2 (truth):      INIT_RULE 0 ; PUSH a ; PUSH b ; <op> ; MATCH_RULE 0 ; HALT
 *
 * Obligation (from the property text): rule 0 is flagged as matching iff the
 * documented semantics (specs/vm_spec.h) gives a defined value r, c is defined
 * and r == c   (SHAPE=2: iff r is defined and non-zero).  Since c is arbitrary
 * this pins the operator's result for every operand pair, including the
 * undefined sentinel.
 *
 * -DOPK=<enum vs_op>, built in plain mode only (the interpreter loop cannot be
 * put under a loop contract; see DESIGN.md 1.2 route M).
 */
#include "vharness.h"
#include "vm_spec.h"

#include "/repo/libyara/exec.c"

/* ---- stubs for other translation units (trusted, listed in evidence) ---- */
static uint32_t cfg_stack_size = 8;
int g_unload_calls;

YR_API int yr_get_configuration_uint32(YR_CONFIG_NAME name, uint32_t* dest)
{
  *dest = cfg_stack_size;
  return ERROR_SUCCESS;
}
int yr_modules_unload_all(YR_SCAN_CONTEXT* context)
{
  g_unload_calls++;
  return ERROR_SUCCESS;
}
uint64_t yr_stopwatch_elapsed_ns(YR_STOPWATCH* sw) { return 0; }

/* resource stubs with ghost live-counters (C10/C16: everything acquired in the
 * prologue is released exactly once on every exit) */
int g_arena_live, g_notebook_live, g_heap_live;
static YR_ARENA dummy_arena;
static int dummy_notebook;
#ifdef VNATIVE
static int nondet_fail(void) { return 0; }
#else
int nondet_fail(void);
#endif
int yr_arena_create(uint32_t n, size_t sz, YR_ARENA** arena)
{
  if (nondet_fail()) return ERROR_INSUFFICIENT_MEMORY;
  g_arena_live++;
  *arena = &dummy_arena;
  return ERROR_SUCCESS;
}
static YR_OBJECT* dummy_objs[4];
void* yr_arena_get_ptr(YR_ARENA* arena, uint32_t buffer_id, yr_arena_off_t offset)
{
  return dummy_objs;
}
int yr_arena_release(YR_ARENA* arena)
{
  g_arena_live--;
  return ERROR_SUCCESS;
}
int yr_notebook_create(size_t page_size, YR_NOTEBOOK** pool)
{
  if (nondet_fail()) return ERROR_INSUFFICIENT_MEMORY;
  g_notebook_live++;
  *pool = (YR_NOTEBOOK*) &dummy_notebook;
  return ERROR_SUCCESS;
}
int yr_notebook_destroy(YR_NOTEBOOK* pool)
{
  g_notebook_live--;
  return ERROR_SUCCESS;
}
void* yr_malloc(size_t size)
{
  void* p = malloc(size);
  if (p != NULL) g_heap_live++;
  return p;
}
void yr_free(void* ptr)
{
  if (ptr != NULL) g_heap_live--;
  free(ptr);
}
static struct { YR_RULE rtab[1]; YR_STRING strs[1]; } abuf;
#define rtab abuf.rtab
#define strs abuf.strs
int yr_arena_ptr_to_ref(YR_ARENA* arena, const void* address, YR_ARENA_REF* ref)
{
  /* the only arena buffer of the harness holds the rules table and the strings table */
  return (const uint8_t*) address >= (const uint8_t*) &abuf &&
         (const uint8_t*) address < (const uint8_t*) &abuf + sizeof(abuf);
}


/* ------------------------------------------------------------------------
 * OPSEL: 1 `$a at x`  2 `$a in (x..y)`  3 `#a`  4 `#a in (x..y)`
 *        5 `@a[i]`    6 `!a[i]`         7 `$a`
 * Match list of string $a: n <= 3 matches (symbolic n), strictly ascending
 * offsets (the representation invariant _yr_scan_add_match_to_list maintains),
 * symbolic offsets and lengths.
 * Documented semantics (writingrules.rst): at/in are true iff SOME match
 * starts at x / inside the INCLUSIVE range x..y; #a in (x..y) counts exactly
 * those; @a[i], !a[i] are 1-based, undefined outside 1..#a; an undefined
 * operand makes the result undefined.
 */
#define NM 3
static YR_NAMESPACE ns0;
static YR_ARENA rarena;
static YR_RULES rules;
static YR_SCAN_CONTEXT ctx;
static YR_BITMASK bm_match[1], bm_ns[1], bm_req[1];
static uint8_t code[64];
static YR_MATCHES mlist[1];
static YR_MATCH mm[NM];

static size_t emit8(size_t p, uint8_t v) { code[p] = v; return p + 1; }
static size_t emit64(size_t p, uint64_t v) { memcpy(code + p, &v, 8); return p + 8; }
static size_t emit32(size_t p, uint32_t v) { memcpy(code + p, &v, 4); return p + 4; }

#if OPSEL == 1
#define OPC OP_FOUND_AT
#define NARGS 1
#elif OPSEL == 2
#define OPC OP_FOUND_IN
#define NARGS 2
#elif OPSEL == 3
#define OPC OP_COUNT
#define NARGS 0
#elif OPSEL == 4
#define OPC OP_COUNT_IN
#define NARGS 2
#elif OPSEL == 5
#define OPC OP_OFFSET
#define NARGS 1
#elif OPSEL == 6
#define OPC OP_LENGTH
#define NARGS 1
#elif OPSEL == 7
#define OPC OP_FOUND
#define NARGS 0
#else
#error OPSEL
#endif

void harness(void)
{
  V_IN(int64_t, a);
  V_IN(int64_t, b);
  V_IN(int64_t, c);
  V_IN(uint8_t, n);
  V_IN_ARR(int64_t, off, NM);
  V_IN_ARR(int32_t, len, NM);

  V_ASSUME(n <= NM);
  V_ASSUME(off[0] >= 0 && off[0] < off[1] && off[1] < off[2] && off[2] < ((int64_t) 1 << 62));
  V_ASSUME(len[0] >= 0 && len[1] >= 0 && len[2] >= 0);

  memset(&abuf, 0, sizeof abuf);
  rtab[0].ns = &ns0;
  strs[0].idx = 0;
  rarena.num_buffers = 1; rarena.xrefs = 1;
  rarena.buffers[0].data = (uint8_t*) &abuf;
  rarena.buffers[0].size = rarena.buffers[0].used = sizeof abuf;
  rules.arena = &rarena; rules.rules_table = rtab; rules.strings_table = strs;
  rules.num_rules = 1; rules.num_strings = 1; rules.num_namespaces = 1; rules.code_start = code;
  memset(&ctx, 0, sizeof ctx);
  ctx.rules = &rules; ctx.rule_matches_flags = bm_match; ctx.ns_unsatisfied_flags = bm_ns; ctx.required_eval = bm_req;
  ctx.matches = mlist;
  bm_match[0] = 0; bm_ns[0] = 0; bm_req[0] = 1;
  for (int i = 0; i < NM; i++)
  {
    mm[i].base = 0; mm[i].offset = off[i]; mm[i].match_length = len[i];
    mm[i].prev = (i > 0) ? &mm[i - 1] : NULL;
    mm[i].next = (i + 1 < n) ? &mm[i + 1] : NULL;
  }
  mlist[0].count = n;
  mlist[0].head = n > 0 ? &mm[0] : NULL;
  mlist[0].tail = n > 0 ? &mm[n - 1] : NULL;

  size_t p = 0;
  p = emit8(p, OP_INIT_RULE); p = emit32(p, 0); p = emit32(p, 0);
#if NARGS >= 1
  p = emit8(p, OP_PUSH); p = emit64(p, (uint64_t) a);
#endif
#if NARGS >= 2
  p = emit8(p, OP_PUSH); p = emit64(p, (uint64_t) b);
#endif
  p = emit8(p, OP_PUSH); p = emit64(p, (uint64_t) (uintptr_t) &strs[0]);
  p = emit8(p, OPC);
  p = emit8(p, OP_PUSH); p = emit64(p, (uint64_t) c);
  p = emit8(p, OP_INT_EQ);
  p = emit8(p, OP_MATCH_RULE); p = emit64(p, 0);
  p = emit8(p, OP_HALT);

  g_unload_calls = 0;
  g_arena_live = g_notebook_live = g_heap_live = 0;
  int rc = yr_execute_code(&ctx);
  if (rc == ERROR_INSUFFICIENT_MEMORY) return;
  V_REACH(9);
  V_ASSERT(rc == ERROR_SUCCESS, "result.success");

  /* documented value r of the operator */
  int64_t r = VS_UNDEF;
  int cnt = 0, any = 0;
#if VNEG == 1
#define INRANGE(o) ((o) >= a && (o) < b) /* wrong on purpose: half-open range */
#else
#define INRANGE(o) ((o) >= a && (o) <= b)
#endif
  for (int i = 0; i < NM; i++)
    if (i < n)
    {
#if OPSEL == 1
      if (off[i] == a) any = 1;
#elif OPSEL == 2 || OPSEL == 4
      if (INRANGE(off[i])) { any = 1; cnt++; }
#endif
    }
#if OPSEL == 1
  r = VS_IS_UNDEF(a) ? VS_UNDEF : any;
#elif OPSEL == 2
  r = (VS_IS_UNDEF(a) || VS_IS_UNDEF(b)) ? VS_UNDEF : any;
#elif OPSEL == 3
  r = n;
#elif OPSEL == 4
  r = (VS_IS_UNDEF(a) || VS_IS_UNDEF(b)) ? VS_UNDEF : cnt;
#elif OPSEL == 5
#if VNEG == 1
  r = (VS_IS_UNDEF(a) || a < 0 || a >= n) ? VS_UNDEF : off[a]; /* wrong on purpose: 0-based */
#else
  r = (VS_IS_UNDEF(a) || a < 1 || a > n) ? VS_UNDEF : off[a - 1];
#endif
#elif OPSEL == 6
  r = (VS_IS_UNDEF(a) || a < 1 || a > n) ? VS_UNDEF : len[a - 1];
#elif OPSEL == 7
  r = n > 0;
#endif
#if VNEG == 2
  int expect = !VS_IS_UNDEF(r) && !VS_IS_UNDEF(c) && r == c + 1;
#else
  int expect = !VS_IS_UNDEF(r) && !VS_IS_UNDEF(c) && r == c;
#endif
  V_ASSERT(((bm_match[0] & 1) != 0) == (expect != 0), "verdict.equals_documented_semantics");
}
