/* C12: the `primary_expression: identifier` action of grammar.y (extracted
 * mechanically, see fold_actions.c / extract/bison_actions.py).
 *
 * Property text: "redefining an external variable after compilation - the new
 * value is honoured wherever the variable is used, including after `at`, in
 * ranges and as an `of` quantifier".  The compile-time value of an expression
 * is what later actions treat as a constant (FIXED_OFFSET, range and sign
 * checks).  Hence: an identifier that denotes an object (external variable or
 * module field) must NOT get a compile-time constant:
 *      type(object)==INTEGER  ==>  $$.type==INTEGER && $$.value.integer==YR_UNDEFINED
 * Other identifiers (loop variables, rule references): $$ == $1.
 */
#include "vharness.h"
#include "vm_spec.h"
#ifndef VNATIVE
#include <stdio.h>
/* non-variadic stub (dfcc does not thread the write set through variadic
 * calls); the format arguments are still evaluated */
#define snprintf(s, n, ...) vstub_snprintf((s), (n), vstub_args(__VA_ARGS__))
static inline int vstub_args(const char* fmt, ...) { return 0; }
int vstub_snprintf(char* s, size_t n, int unused);
#endif
#include "grammar_used.c"

int g_emit_rc;
#ifndef VNATIVE
int nondet_int(void);
#define NONDET_INT() nondet_int()
#endif
int yr_parser_emit(yyscan_t yyscanner, uint8_t instruction, YR_ARENA_REF* ref)
{
  /* The emitter answers the same arbitrary code g_emit_rc on every call of
   * one action: fail_if_error(e) evaluates its argument up to four times, a
   * stub answering differently each time would create paths no real emitter
   * has (noted in DESIGN.md as an observation on the macro). */
  return g_emit_rc;
}
void yara_yyerror(yyscan_t yyscanner, YR_COMPILER* compiler, const char* m) {}
void* yr_arena_ref_to_ptr(YR_ARENA* arena, YR_ARENA_REF* ref) { return "id"; }
#ifndef VNATIVE
int vstub_snprintf(char* s, size_t n, int unused)
{
  __CPROVER_assert(
      n <= __CPROVER_OBJECT_SIZE(s) - __CPROVER_POINTER_OFFSET(s),
      "snprintf: size argument fits the destination buffer");
  if (n > 0)
  {
    /* the produced text is not observed by any obligation; first and last
     * byte are written so that the frame (assigns) check sees the access */
    s[0] = (char) NONDET_INT();
    s[n - 1] = 0;
  }
  return NONDET_INT();
}
#endif

#include "fold_actions.h"

#if VNEG == 1
#define EXPECT_CONST(obj) ((obj)->value.i) /* wrong: compile-time value of the external leaks */
#else
#define EXPECT_CONST(obj) VS_UNDEF
#endif

#define OBJ(st) ((st)->expression.value.object)
static int fold_ident(YYSTYPE* stack, YYSTYPE* out, void* yyscanner, YR_COMPILER* compiler)
#ifdef VMODE_CONTRACT
    /* clang-format off */
__CPROVER_requires(__CPROVER_is_fresh(stack, sizeof(YYSTYPE)))
__CPROVER_requires(__CPROVER_is_fresh(out, sizeof(YYSTYPE)))
__CPROVER_requires(__CPROVER_is_fresh(compiler, sizeof(YR_COMPILER)))
/* the object must be introduced through the pointer that the action
 * dereferences (an assumed pointer equality does not enter CBMC's value sets) */
__CPROVER_requires(stack->expression.type == EXPRESSION_TYPE_OBJECT ==>
                   __CPROVER_is_fresh(stack->expression.value.object, sizeof(YR_OBJECT)))
__CPROVER_requires(stack->expression.identifier.ptr != NULL)
__CPROVER_assigns(*out, __CPROVER_object_whole(compiler))
__CPROVER_ensures((__CPROVER_return_value == ACT_OK && stack->expression.type == EXPRESSION_TYPE_OBJECT && OBJ(stack)->type == OBJECT_TYPE_INTEGER)
                  ==> (out->expression.type == EXPRESSION_TYPE_INTEGER && out->expression.value.integer == EXPECT_CONST(OBJ(stack))))
__CPROVER_ensures((__CPROVER_return_value == ACT_OK && stack->expression.type != EXPRESSION_TYPE_OBJECT)
                  ==> (out->expression.type == stack->expression.type && out->expression.value.integer == stack->expression.value.integer))
__CPROVER_ensures(__CPROVER_return_value != ACT_OK ==>
                  ((g_emit_rc != ERROR_SUCCESS && g_emit_rc != ERROR_UNKNOWN_ESCAPE_SEQUENCE) ||
                   (stack->expression.type == EXPRESSION_TYPE_OBJECT && OBJ(stack)->type != OBJECT_TYPE_INTEGER &&
                    OBJ(stack)->type != OBJECT_TYPE_FLOAT && OBJ(stack)->type != OBJECT_TYPE_STRING)))
    /* clang-format on */
#endif
{
  *out = stack[0]; /* bison driver: $$ = $1 */
  return act_ident(stack, out, yyscanner, compiler);
}

#ifdef VMODE_CONTRACT
void harness(void)
{
  YYSTYPE* stack;
  YYSTYPE* out;
  YR_COMPILER* compiler;
  void* yyscanner;
  g_emit_rc = nondet_int();
  fold_ident(stack, out, yyscanner, compiler);
}
#else
void harness(void)
{
  V_IN(int64_t, ext_value);
  V_IN(int, emit_rc);
  /* heap objects: CBMC's value sets lose a pointer stored in a union member of
   * a static array when it is read back through *(stack + 0) */
  YYSTYPE* stack = malloc(sizeof(YYSTYPE));
  YR_OBJECT* pobj = malloc(sizeof(YR_OBJECT));
  V_ASSUME(stack != NULL && pobj != NULL);
  static YYSTYPE out;
  static YR_COMPILER compiler;
#define obj (*pobj)
  obj.type = OBJECT_TYPE_INTEGER;
  obj.value.i = ext_value;
  stack[0].expression.type = EXPRESSION_TYPE_OBJECT;
  stack[0].expression.value.object = pobj;
  stack[0].expression.identifier.ptr = "ext";
  g_emit_rc = emit_rc;
  int rc = fold_ident(stack, &out, NULL, &compiler);
  V_ASSERT(!(rc == ACT_OK) || (out.expression.type == EXPRESSION_TYPE_INTEGER &&
                               out.expression.value.integer == EXPECT_CONST(&obj)),
           "external_is_not_a_compile_time_constant");
}
#endif
