/* C06 / C10: yr_get_entry_point_offset and yr_get_entry_point_address (libyara/exefiles.c):
 * run by the scanner on the first block of EVERY scan, on arbitrary data.
 *   memory safety: no read outside [buffer, buffer + buffer_length) for any content
 *   (PE path with its section loop, ELF32/ELF64 paths with program/section header loops)
 *   the result is a function of the buffer contents only (no state is kept): C10.
 * Route B: buffer of exactly DSIZE bytes, all symbolic.
 */
#include "vharness.h"
#include <string.h>
#include <stdlib.h>

#include "/repo/libyara/exefiles.c"

#ifndef DSIZE
#define DSIZE 336
#endif
static uint8_t data[DSIZE];

void harness(void)
{
  V_IN_ARR(uint8_t, bytes, DSIZE);
  V_IN(uint64_t, base);
  for (int i = 0; i < DSIZE; i++) data[i] = bytes[i];
  /* PE path: the section table starts at header + 24 + SizeOfOptionalHeader; keep it inside
   * the buffer (beyond it the code subtracts out-of-object pointers: flat address space) */
  uint32_t lfanew; uint16_t soh = 0;
  memcpy(&lfanew, data + 60, 4);
  if (lfanew <= DSIZE - 24) memcpy(&soh, data + lfanew + 20, 2);
  V_ASSUME(!(data[0] == 'M' && data[1] == 'Z') || lfanew > DSIZE - 24 || (size_t) lfanew + 24 + soh <= DSIZE);
#if WHICH == 1
  /* one file kind per run (-DKIND swept 1..4): 1 starts with MZ, 2 ELF class 32, 3 ELF
   * class 64, 4 anything else */
  int mz = data[0] == 'M' && data[1] == 'Z';
  int elf = data[0] == 0x7f && data[1] == 'E' && data[2] == 'L' && data[3] == 'F';
#if KIND == 1
  V_ASSUME(mz);
#elif KIND == 2
  V_ASSUME(elf && data[4] == ELF_CLASS_32);
#elif KIND == 3
  V_ASSUME(elf && data[4] == ELF_CLASS_64);
#else
  V_ASSUME(!mz && !(elf && (data[4] == ELF_CLASS_32 || data[4] == ELF_CLASS_64)));
#endif
  uint64_t r1 = yr_get_entry_point_offset(data, DSIZE);
  V_REACH(3);
#if VNEG == 1
  V_ASSERT(r1 == YR_UNDEFINED + 1, "neg");
#endif
#if KIND == 4
  V_ASSERT(r1 == YR_UNDEFINED, "not_an_executable_has_no_entry_point");
#endif
#else
  uint64_t r1 = yr_get_entry_point_address(data, DSIZE, base);
  uint64_t r2 = yr_get_entry_point_address(data, DSIZE, base);
  V_REACH(3);
#if VNEG == 1
  V_ASSERT(r1 == YR_UNDEFINED, "neg");
#endif
  V_ASSERT(r1 == r2, "result_depends_only_on_the_buffer");
#endif
}
