/* C06: str_table_entry (libyara/modules/elf/elf.c) -- every ELF section / symbol name the
 * module hands to yr_set_string (strlen/strcpy) comes from this function.
 *
 * Contract (dfcc): for a string table [base, limit) inside the scanned data
 *   result == NULL, or
 *   result == base + index, index >= 0, result < limit, and the string is
 *   NUL-terminated INSIDE the table (ghost g_len: result + g_len < limit and
 *   result[g_len] == 0), and the table starts with NUL
 * so no caller reads beyond the table. assigns nothing but the ghost.
 * strnlen is replaced by its contract (libc, trusted): returns n <= maxlen,
 * s[n] == 0 when n < maxlen.
 */
#include "vharness.h"
#include <string.h>
#include <stdlib.h>

size_t g_len; /* ghost: length strnlen reported */

#ifdef VMODE_CONTRACT
size_t strnlen(const char* s, size_t maxlen)
    /* clang-format off */
__CPROVER_assigns(g_len)
__CPROVER_ensures(__CPROVER_return_value <= maxlen)
__CPROVER_ensures(__CPROVER_return_value < maxlen ==> s[__CPROVER_return_value] == 0)
__CPROVER_ensures(g_len == __CPROVER_return_value)
    /* clang-format on */
    ;
#define TABLE_MAX 4096
static const char* str_table_entry(const char* str_table_base, const char* str_table_limit, int index)
    /* clang-format off */
__CPROVER_requires(__CPROVER_is_fresh(str_table_base, TABLE_MAX))
__CPROVER_requires(__CPROVER_same_object(str_table_base, str_table_limit))
__CPROVER_requires(__CPROVER_POINTER_OFFSET(str_table_limit) <= TABLE_MAX)
/* index beyond the table: base + index is then formed outside the object, which CBMC
 * (rightly, per the C standard) refuses to compare; that case is a single comparison
 * in the code and is left to the flat-address-space assumption */
__CPROVER_requires(index <= (int) __CPROVER_POINTER_OFFSET(str_table_limit))
__CPROVER_assigns(g_len)
#if VNEG == 1
__CPROVER_ensures(__CPROVER_return_value == NULL ||
                  (__CPROVER_return_value + g_len <= str_table_limit && 0))
#else
__CPROVER_ensures(__CPROVER_return_value == NULL ||
                  (index >= 0 && __CPROVER_return_value == str_table_base + index &&
                   __CPROVER_return_value < str_table_limit &&
                   __CPROVER_return_value + g_len < str_table_limit &&
                   __CPROVER_return_value[g_len] == 0 && str_table_base[0] == 0))
#endif
    /* clang-format on */
    ;
#endif

#include "/repo/libyara/modules/elf/elf.c"

#ifdef VMODE_CONTRACT
void harness(void)
{
  const char* base;
  const char* limit;
  int index;
  str_table_entry(base, limit, index);
}
#else
#define TB 8
void harness(void)
{
  V_IN_ARR(uint8_t, table, TB);
  V_IN(uint8_t, size);
  V_IN(int, index);
  V_ASSUME(size <= TB);
  V_ASSUME(index <= (int) size);
  char* t = malloc(size ? size : 1);
  V_ASSUME(t != NULL);
  for (int i = 0; i < TB; i++) if (i < size) t[i] = (char) table[i];
  const char* r = str_table_entry(t, t + size, index);
  if (r != NULL)
  {
    V_ASSERT(index >= 0 && r == t + index && r < t + size, "entry_inside_table");
    int terminated = 0;
    for (int i = 0; i < TB; i++) if (r + i < t + size && r[i] == 0) terminated = 1;
    V_ASSERT(terminated, "entry_is_nul_terminated_inside_table");
  }
  free(t);
}
#endif
