/* C12 / C15 / C01: the candidate-verification front of libyara/scan.c.
 *
 * SEL 1  yr_scan_verify_match (C12 shortcuts, C15 match limit)
 *   a candidate reported by the automaton is SKIPPED only if
 *     - no byte is left at the offset, or
 *     - the string was temporarily disabled after a too-many-matches warning, or
 *     - fast mode AND the string is flagged SINGLE_MATCH AND a match is already recorded, or
 *     - the string is flagged FIXED_OFFSET AND base + offset differs from that offset;
 *   otherwise exactly one verifier runs (the literal one iff the string is LITERAL) with the
 *   arguments unchanged. ERROR_TOO_MANY_MATCHES from the verifier is turned into one
 *   CALLBACK_MSG_TOO_MANY_MATCHES for THIS string: CONTINUE -> only this string's bit is set
 *   in strings_temp_disabled and the scan goes on (SUCCESS); anything else -> the error.
 *   Any error records the string as last_error_string. No other string's state changes.
 * SEL 2  _yr_scan_verify_literal_match (C01 dispatch over the modifiers)
 *   the match callback runs at most once; it runs iff some comparison enabled by the
 *   string's modifiers succeeded (the six comparison functions are replaced by recording
 *   stubs that answer arbitrary lengths -- their own contracts are C01.scan.*compare), with
 *   forward length = that comparison's result, RE_FLAGS_WIDE iff the length is twice the
 *   string length, RE_FLAGS_NO_CASE iff nocase, fullword and xor key passed on; a string
 *   that fits in its atom is accepted with the atom's backtrack as length.
 * Inner functions of the same translation unit are redirected with goto-instrument
 * --replace-calls (no native build). Loop-free (route P).
 */
#include "vharness.h"
#include <string.h>
#include <stdlib.h>

#include "/repo/libyara/scan.c"

static YR_STRING str[2];
static YR_SCAN_CONTEXT ctx;
static YR_MATCHES lists[2];
static YR_BITMASK disabled[1];
static YR_AC_MATCH acm;
static uint8_t data[8];
static YR_MATCH some_match;

/* ---- SEL 1 stubs ---- */
static int g_lit_calls, g_re_calls, in_verify_rc, g_cb_calls, g_cb_msg, in_cb_answer;
static const void* g_cb_data;
static const uint8_t* g_v_data; static size_t g_v_size, g_v_off; static uint64_t g_v_base; static YR_AC_MATCH* g_v_acm;
int vstub_lit(YR_SCAN_CONTEXT* c, YR_AC_MATCH* m, const uint8_t* d, size_t s, uint64_t b, size_t o)
{ g_lit_calls++; g_v_data = d; g_v_size = s; g_v_base = b; g_v_off = o; g_v_acm = m; return in_verify_rc; }
int vstub_re(YR_SCAN_CONTEXT* c, YR_AC_MATCH* m, const uint8_t* d, size_t s, uint64_t b, size_t o)
{ g_re_calls++; g_v_data = d; g_v_size = s; g_v_base = b; g_v_off = o; g_v_acm = m; return in_verify_rc; }
static int the_cb(YR_SCAN_CONTEXT* c, int message, void* message_data, void* user_data)
{ g_cb_calls++; g_cb_msg = message; g_cb_data = message_data; return in_cb_answer; }

/* ---- SEL 2 stubs ---- */
static int in_r[6];            /* answers of compare, icompare, wcompare, wicompare, xor_compare, xor_wcompare */
static uint8_t in_key[2];      /* keys the two xor comparisons report */
static int g_cmp_calls[6];
static int g_mcb_calls, g_mcb_len, g_mcb_flags, g_mcb_fwd, g_mcb_fullword, g_mcb_key;
static const uint8_t* g_mcb_data;
#define CMP4(name, k) int name(const uint8_t* d, size_t ds, uint8_t* s, size_t sl) { g_cmp_calls[k]++; return in_r[k]; }
CMP4(vstub_compare, 0) CMP4(vstub_icompare, 1) CMP4(vstub_wcompare, 2) CMP4(vstub_wicompare, 3)
int vstub_xor_compare(const uint8_t* d, size_t ds, uint8_t* s, size_t sl, uint8_t* key) { g_cmp_calls[4]++; if (in_r[4] > 0) *key = in_key[0]; return in_r[4]; }
int vstub_xor_wcompare(const uint8_t* d, size_t ds, uint8_t* s, size_t sl, uint8_t* key) { g_cmp_calls[5]++; if (in_r[5] > 0) *key = in_key[1]; return in_r[5]; }
int vstub_match_callback(const uint8_t* match_data, int32_t match_length, int flags, void* args)
{
  CALLBACK_ARGS* a = args;
  g_mcb_calls++; g_mcb_data = match_data; g_mcb_len = match_length; g_mcb_flags = flags;
  g_mcb_fwd = a->forward_matches; g_mcb_fullword = a->full_word; g_mcb_key = a->xor_key;
  return ERROR_SUCCESS;
}

void harness(void)
{
  V_IN(uint32_t, flags);
  V_IN(int64_t, fixed_offset);
  V_IN(uint64_t, base);
  V_IN(uint8_t, off);
  V_IN(uint8_t, size);
  V_IN(int, scan_flags);
  V_IN(uint8_t, already_matched);
  V_IN(uint64_t, disabled0);
  V_IN(int, verify_rc);
  V_IN(int, cb_answer);
  V_IN_ARR(int, r, 6);
  V_IN_ARR(uint8_t, key, 2);
  V_IN(uint16_t, backtrack);
  V_IN(uint8_t, slen);

  V_ASSUME(size <= 8 && off <= size && slen >= 1 && slen <= 4);
  memset(str, 0, sizeof str); memset(&ctx, 0, sizeof ctx); memset(lists, 0, sizeof lists);
  str[0].flags = flags; str[0].idx = 0; str[0].fixed_offset = fixed_offset; str[0].length = slen;
  str[1].idx = 1;
  if (already_matched) { lists[0].head = lists[0].tail = &some_match; lists[0].count = 1; }
  disabled[0] = disabled0;
  ctx.flags = scan_flags; ctx.matches = lists; ctx.strings_temp_disabled = disabled; ctx.callback = the_cb;
  acm.string = &str[0]; acm.backtrack = backtrack;
  in_verify_rc = verify_rc; in_cb_answer = cb_answer;
  g_lit_calls = g_re_calls = g_cb_calls = g_mcb_calls = 0;
  for (int i = 0; i < 6; i++) { in_r[i] = r[i]; g_cmp_calls[i] = 0; V_ASSUME(r[i] == 0 || r[i] == slen || r[i] == 2 * slen); }
  in_key[0] = key[0]; in_key[1] = key[1];

#if SEL == 1
  int rc = yr_scan_verify_match(&ctx, &acm, data, size, base, off);

  int skip = (size - off == 0) || ((disabled0 >> 0) & 1) ||
             ((scan_flags & SCAN_FLAGS_FAST_MODE) && (flags & STRING_FLAGS_SINGLE_MATCH) && already_matched) ||
#if VNEG == 1
             ((flags & STRING_FLAGS_FIXED_OFFSET) && (uint64_t) fixed_offset != base); /* wrong on purpose */
#else
             ((flags & STRING_FLAGS_FIXED_OFFSET) && (uint64_t) fixed_offset != base + off);
#endif
  V_ASSERT(lists[1].head == NULL && (disabled[0] & 2) == (disabled0 & 2), "frame.other_strings_untouched");
  if (skip)
  {
    V_REACH(3);
    V_ASSERT(rc == ERROR_SUCCESS && g_lit_calls + g_re_calls == 0 && g_cb_calls == 0 && disabled[0] == disabled0, "S.skipped_candidate_has_no_effect");
    return;
  }
  V_REACH(4);
  V_ASSERT(g_lit_calls + g_re_calls == 1 && (g_lit_calls == 1) == ((flags & STRING_FLAGS_LITERAL) != 0), "V.exactly_one_verifier_chosen_by_string_kind");
  V_ASSERT(g_v_data == data && g_v_size == size && g_v_base == base && g_v_off == off && g_v_acm == &acm, "V.arguments_passed_unchanged");
  if (verify_rc == ERROR_TOO_MANY_MATCHES)
  {
    V_ASSERT(g_cb_calls == 1 && g_cb_msg == CALLBACK_MSG_TOO_MANY_MATCHES && g_cb_data == &str[0], "L.one_too_many_matches_message_for_this_string");
    if (cb_answer == CALLBACK_CONTINUE)
      V_ASSERT(rc == ERROR_SUCCESS && disabled[0] == (disabled0 | 1), "L.continue_disables_only_this_string");
    else
      V_ASSERT(rc == ERROR_TOO_MANY_MATCHES && disabled[0] == disabled0, "L.other_answers_fail_the_scan");
  }
  else
  {
    V_ASSERT(rc == verify_rc && g_cb_calls == 0 && disabled[0] == disabled0, "V.verifier_result_returned");
  }
  V_ASSERT((rc != ERROR_SUCCESS) == (ctx.last_error_string == &str[0]), "E.failing_string_recorded");
#else
  V_ASSUME(off < size);
  int rc = _yr_scan_verify_literal_match(&ctx, &acm, data, size, base, off);
  V_ASSERT(rc == ERROR_SUCCESS, "success");
  int ascii = (flags & STRING_FLAGS_ASCII) != 0, wide = (flags & STRING_FLAGS_WIDE) != 0;
  int nocase = (flags & STRING_FLAGS_NO_CASE) != 0, xr = (flags & STRING_FLAGS_XOR) != 0;
  int fits = (flags & STRING_FLAGS_FITS_IN_ATOM) != 0;
  /* documented outcome: first successful comparison among those the modifiers enable */
  int fwd = 0; int k = 0;
  if (fits) { fwd = backtrack; if (xr) { if (wide && r[5] > 0) k = key[1]; if (ascii && r[4] > 0) k = key[0]; } }
  else if (nocase) { if (ascii) fwd = r[1]; if (wide && fwd == 0) fwd = r[3]; }
  else
  {
    if (ascii) fwd = r[0];
    if (wide && fwd == 0) fwd = r[2];
    if (xr && fwd == 0)
    {
      if (wide) { fwd = r[5]; if (fwd > 0) k = key[1]; }
      if (fwd == 0) { fwd = r[4]; if (fwd > 0) k = key[0]; }
    }
  }
  V_ASSERT(g_mcb_calls <= 1, "M.at_most_one_match_per_candidate");
#if VNEG == 1
  V_ASSERT((g_mcb_calls == 1) == (fwd != 0 && !nocase), "neg");
#endif
  V_ASSERT((g_mcb_calls == 1) == (fwd != 0), "M.match_reported_iff_an_enabled_variant_matched");
  if (g_mcb_calls == 1)
  {
    V_REACH(3);
    V_ASSERT(g_mcb_data == data + off && g_mcb_len == 0 && g_mcb_fwd == fwd, "M.position_and_length");
    V_ASSERT(((g_mcb_flags & RE_FLAGS_WIDE) != 0) == (fwd == 2 * (int) slen), "M.wide_flag_iff_wide_length");
    V_ASSERT(((g_mcb_flags & RE_FLAGS_NO_CASE) != 0) == nocase, "M.nocase_flag");
    V_ASSERT((g_mcb_fullword != 0) == ((flags & STRING_FLAGS_FULL_WORD) != 0), "M.fullword_passed_on");
    V_ASSERT(g_mcb_key == k, "M.xor_key_of_the_variant_that_matched");
  }
#endif
}
