/* C02 / C16: yr_re_fast_exec of libyara/re.c -- the matcher used for every hex string
 * without alternatives (STRING_FLAGS_FAST_REGEXP) -- on symbolic programs over a symbolic
 * buffer, compared with the denotation of a hex pattern:
 *
 *   a pattern is a sequence of items; a byte item (xx, x?, ?x, ??, ~xx, ~x?) consumes one
 *   byte that satisfies it; a jump [min-max] consumes any j bytes, min <= j <= max. A byte
 *   sequence satisfies the pattern iff it can be cut into consecutive pieces satisfying the
 *   items in order. L(p, d) = set of lengths l such that d[0..l) satisfies p.
 *
 * Obligations (for every program of the stated shape, every buffer, every start position,
 * forwards and backwards, every allocation-failure pattern):
 *   exhaustive mode : the set of lengths handed to the callback == L (no length missing,
 *                     none invented), each with the right start pointer;
 *   first-match mode: *matches == -1 iff L is empty, otherwise *matches is a member of L;
 *   no byte outside [buffer, buffer+size) is read (CBMC pointer checks on the real code);
 *   ERROR_INSUFFICIENT_MEMORY only if an allocation failed, nothing else but SUCCESS, and
 *   every position taken from the pool or the allocator is back in the pool at return.
 *
 * Route B. Bound: NITEMS items (each symbolic among ANY, LITERAL, NOT_LITERAL,
 * MASKED_LITERAL, MASKED_NOT_LITERAL, REPEAT_ANY_UNGREEDY with min <= max <= JMAX; the
 * last item is not a jump, as in every pattern the grammar accepts), buffer of DSIZE bytes.
 * Bytes, masks, values and jump bounds are fully symbolic.
 */
#include "vharness.h"
#include <string.h>
#include <stdlib.h>

#ifndef NITEMS
#define NITEMS 3
#endif
#ifndef DSIZE
#define DSIZE 5
#endif
#ifndef JMAX
#define JMAX 2
#endif
#define NPOS 8

#include <yara/types.h>
#include <yara/re.h>

static RE_FAST_EXEC_POSITION pos_pool[NPOS];
static int g_allocs, g_alloc_failed;
static uint32_t in_failmask;
int yr_isalnum(const uint8_t* s) { return 0; }
void* yr_malloc(size_t size)
{
  int k = g_allocs++;
  if (k >= NPOS || ((in_failmask >> k) & 1)) { g_alloc_failed = 1; return NULL; }
  return &pos_pool[k];
}

#include "/repo/libyara/re.c"

static uint32_t g_cb_set; /* bit l: callback called with length l */
static int g_cb_bad_ptr, g_cb_bad_len;
static const uint8_t* g_expect_fwd_ptr;
static const uint8_t* g_bwd_origin;
static int g_backwards;
static int the_callback(const uint8_t* match, int match_length, int flags, void* args)
{
  if (match_length < 0 || match_length > DSIZE) { g_cb_bad_len = 1; return ERROR_SUCCESS; }
  g_cb_set |= 1u << match_length;
  if (g_backwards ? (match != g_bwd_origin - match_length) : (match != g_expect_fwd_ptr)) g_cb_bad_ptr = 1;
  return ERROR_SUCCESS;
}

#ifndef SHAPE
#define SHAPE 0
#endif
/* item kinds are compile-time constants taken from the base-6 digits of SHAPE (symbolic opcodes make
 * the instruction pointer symbolic and CBMC's symbolic execution does not finish) */
static const uint8_t kind[4] = {SHAPE % 6, (SHAPE / 6) % 6, (SHAPE / 36) % 6, (SHAPE / 216) % 6};
enum { K_ANY, K_LIT, K_NOTLIT, K_MASKED, K_MASKEDNOT, K_JUMP, K_COUNT };

static uint8_t buf[DSIZE];
static uint8_t code[NITEMS * 5 + 1];
static YR_SCAN_CONTEXT ctx;

void harness(void)
{
  V_IN_ARR(uint8_t, data, DSIZE);
  V_IN_ARR(uint8_t, val, NITEMS);
  V_IN_ARR(uint8_t, mask, NITEMS);
  V_IN_ARR(uint8_t, jmin, NITEMS);
  V_IN_ARR(uint8_t, jmax, NITEMS);
  const uint8_t nitems = NITEMS;
  V_IN(uint8_t, start);
  V_IN(uint8_t, backwards);
  V_IN(uint8_t, exhaustive);
  V_IN(uint32_t, failmask);

  V_ASSUME(start <= DSIZE);
  for (int i = 0; i < DSIZE; i++) buf[i] = data[i];
  int n = 0;
  for (int i = 0; i < NITEMS; i++)
  {
    if (i >= nitems) break;
    V_ASSUME(kind[i] != K_JUMP || (jmin[i] <= jmax[i] && jmax[i] <= JMAX));
    switch (kind[i])
    {
    case K_ANY: code[n++] = RE_OPCODE_ANY; break;
    case K_LIT: code[n++] = RE_OPCODE_LITERAL; code[n++] = val[i]; break;
    case K_NOTLIT: code[n++] = RE_OPCODE_NOT_LITERAL; code[n++] = val[i]; break;
    case K_MASKED: code[n++] = RE_OPCODE_MASKED_LITERAL; code[n++] = val[i]; code[n++] = mask[i]; break;
    case K_MASKEDNOT: code[n++] = RE_OPCODE_MASKED_NOT_LITERAL; code[n++] = val[i]; code[n++] = mask[i]; break;
    default:
      code[n++] = RE_OPCODE_REPEAT_ANY_UNGREEDY;
      code[n++] = jmin[i]; code[n++] = 0; code[n++] = jmax[i]; code[n++] = 0;
      break;
    }
  }
  code[n] = RE_OPCODE_MATCH;


  in_failmask = failmask; g_allocs = 0; g_alloc_failed = 0;
  g_cb_set = 0; g_cb_bad_ptr = g_cb_bad_len = 0;
  g_backwards = backwards != 0;
  g_expect_fwd_ptr = buf + start; g_bwd_origin = buf + start;
  int flags = (backwards ? RE_FLAGS_BACKWARDS : 0) | (exhaustive ? RE_FLAGS_EXHAUSTIVE : 0);
  int matches = -7;

  int rc = yr_re_fast_exec(&ctx, code, buf + start, DSIZE - start, start, flags, the_callback, NULL, &matches);

  /* ---- the denotation L as a bit set over lengths ---- */
  int avail = backwards ? start : DSIZE - start;
  uint32_t S = 1;
  for (int i = 0; i < NITEMS; i++)
  {
    if (i >= nitems) break;
    uint32_t T = 0;
    for (int l = 0; l <= DSIZE; l++)
    {
      if (!((S >> l) & 1)) continue;
      if (kind[i] == K_JUMP)
      {
        for (int j = 0; j <= JMAX; j++)
          /* a jump is followed by a byte item, so one more byte must be left */
          if (j >= jmin[i] && j <= jmax[i] && l + j < avail) T |= 1u << (l + j);
      }
      else if (l < avail)
      {
        uint8_t b = backwards ? buf[start - 1 - l] : buf[start + l];
        int ok;
        switch (kind[i])
        {
        case K_ANY: ok = 1; break;
        case K_LIT: ok = b == val[i]; break;
        case K_NOTLIT: ok = b != val[i]; break;
#if VNEG == 1
        case K_MASKED: ok = (b & mask[i]) == (val[i] & mask[i]); break; /* wrong on purpose */
#else
        case K_MASKED: ok = (b & mask[i]) == val[i]; break;
#endif
        default: ok = (b & mask[i]) != val[i]; break;
        }
        if (ok) T |= 1u << (l + 1);
      }
    }
    S = T;
  }

  V_ASSERT(rc == ERROR_SUCCESS || rc == ERROR_INSUFFICIENT_MEMORY, "E.only_documented_results");
  V_ASSERT(rc != ERROR_INSUFFICIENT_MEMORY || g_alloc_failed, "E.no_memory_error_only_after_failed_allocation");
  /* every position obtained is back in the pool */
  {
    int in_pool = 0;
    RE_FAST_EXEC_POSITION* p = ctx.re_fast_exec_position_pool.head;
    for (int k = 0; k < NPOS + 1 && p != NULL; k++) { in_pool++; p = p->next; }
    int got = g_allocs - (g_alloc_failed ? 1 : 0);
    V_ASSERT(p == NULL && in_pool == (got > NPOS ? NPOS : got), "R.all_positions_returned_to_the_pool");
  }
  if (rc != ERROR_SUCCESS) return;
  V_ASSERT(!g_alloc_failed, "E.failed_allocation_reported");
  if (exhaustive)
  {
    V_REACH(3);
    V_ASSERT(!g_cb_bad_len && !g_cb_bad_ptr, "X.reported_match_starts_where_it_should");
#if VNEG == 2
    V_ASSERT((g_cb_set & ~1u) == 0, "neg");
#endif
    V_ASSERT((S & ~g_cb_set) == 0, "X.no_satisfying_length_is_missed");
    V_ASSERT((g_cb_set & ~S) == 0, "X.no_length_is_invented");
  }
  else
  {
    V_REACH(4);
    V_ASSERT(g_cb_set == 0, "F.no_callback_in_first_match_mode");
    V_ASSERT((matches == -1) == (S == 0), "F.no_match_iff_nothing_satisfies_the_pattern");
    V_ASSERT(matches == -1 || (matches >= 0 && matches <= DSIZE && ((S >> matches) & 1)), "F.reported_length_satisfies_the_pattern");
  }
}
