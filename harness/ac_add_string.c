/* C08 / C01: yr_ac_add_string (libyara/ahocorasick.c).
 *  R  every pointer field of the YR_AC_MATCH record the function fills in (string,
 *     forward_code, backward_code, next) is REGISTERED as relocatable in the
 *     yr_arena_allocate_struct call: an unregistered pointer is written to the saved
 *     rules file as a raw process address and is not fixed up on load (C08)
 *  M  the match carries backtrack = depth of the atom's state + the atom's own backtrack,
 *     points to the string with the given index and to the atom's code, and becomes the
 *     head of the state's match list (C01: a candidate is verified at the right distance)
 * Route B: one atom of 1..2 bytes, empty or one-level trie. Stubs: the arena (records the
 * registered offsets), yr_malloc/calloc through libc.
 */
#include "vharness.h"
#include <stdlib.h>
#include <string.h>
#include <stdarg.h>

#include "/repo/libyara/ahocorasick.c"

static YR_AC_MATCH g_match, g_prev_match;
static size_t g_reg[8];
static int g_nreg, g_allocs, g_alloc_buffer;
static size_t g_alloc_size;
static uint8_t fwd_code[1], bwd_code[1];
static YR_STRING strtab[3];

int yr_arena_allocate_struct(YR_ARENA* arena, uint32_t buffer_id, size_t size, YR_ARENA_REF* ref, ...)
{
  va_list ap;
  va_start(ap, ref);
  g_allocs++; g_alloc_buffer = buffer_id; g_alloc_size = size;
  for (int i = 0; i < 8; i++)
  {
    size_t o = va_arg(ap, size_t);
    if (o == EOL) break;
    g_reg[g_nreg++] = o;
  }
  va_end(ap);
  ref->buffer_id = buffer_id; ref->offset = 100;
  return ERROR_SUCCESS;
}
void* yr_arena_ref_to_ptr(YR_ARENA* arena, YR_ARENA_REF* ref)
{
  if (YR_ARENA_IS_NULL_REF(*ref)) return NULL;
  if (ref->buffer_id == YR_AC_STATE_MATCHES_POOL) return ref->offset == 100 ? &g_match : &g_prev_match;
  if (ref->buffer_id == YR_CODE_SECTION) return ref->offset == 1 ? fwd_code : bwd_code;
  return NULL;
}
void* yr_arena_get_ptr(YR_ARENA* arena, uint32_t buffer_id, yr_arena_off_t offset)
{
  return (uint8_t*) strtab + offset;
}
void* yr_malloc(size_t s) { return malloc(s); }
void* yr_calloc(size_t n, size_t s) { return calloc(n, s); }
void yr_free(void* p) { free(p); }

static int registered(size_t o) { for (int i = 0; i < 8; i++) if (i < g_nreg && g_reg[i] == o) return 1; return 0; }

void harness(void)
{
  V_IN(uint8_t, alen);
  V_IN_ARR(uint8_t, abytes, 2);
  V_IN(uint16_t, abacktrack);
  V_IN(uint8_t, sidx);
  V_IN(uint8_t, had_match);
  V_ASSUME(alen >= 1 && alen <= 2 && sidx <= 2 && had_match <= 1);
  static YR_AC_AUTOMATON aut;
  static YR_AC_STATE root;
  static YR_ATOM_LIST_ITEM atom;
  memset(&root, 0, sizeof root);
  root.matches_ref = YR_ARENA_NULL_REF;
  aut.root = &root;
  memset(&atom, 0, sizeof atom);
  atom.atom.length = alen;
  atom.atom.bytes[0] = abytes[0]; atom.atom.bytes[1] = abytes[1];
  atom.backtrack = abacktrack;
  atom.forward_code_ref.buffer_id = YR_CODE_SECTION; atom.forward_code_ref.offset = 1;
  atom.backward_code_ref.buffer_id = YR_CODE_SECTION; atom.backward_code_ref.offset = 2;
  atom.next = NULL;
  g_nreg = g_allocs = 0;

  int rc = yr_ac_add_string(&aut, &strtab[sidx], sidx, &atom, NULL);

  if (rc != ERROR_SUCCESS) { V_ASSERT(rc == ERROR_INSUFFICIENT_MEMORY, "only_documented_error"); return; }
  V_REACH(3);
  V_ASSERT(g_allocs == 1 && g_alloc_buffer == YR_AC_STATE_MATCHES_POOL && g_alloc_size == sizeof(YR_AC_MATCH), "one_match_record_per_atom");
  /* R */
  V_ASSERT(registered(offsetof(YR_AC_MATCH, string)), "R.string_pointer_registered");
  V_ASSERT(registered(offsetof(YR_AC_MATCH, forward_code)), "R.forward_code_pointer_registered");
#if VNEG != 1
  V_ASSERT(registered(offsetof(YR_AC_MATCH, backward_code)), "R.backward_code_pointer_registered");
#else
  V_ASSERT(!registered(offsetof(YR_AC_MATCH, backward_code)), "neg");
#endif
  V_ASSERT(registered(offsetof(YR_AC_MATCH, next)), "R.next_pointer_registered");
  V_ASSERT(g_nreg == 4, "R.nothing_else_registered");
  /* M */
  V_ASSERT(g_match.backtrack == (uint16_t) (alen + abacktrack), "M.backtrack_is_depth_plus_atom_backtrack");
  V_ASSERT(g_match.string == &strtab[sidx], "M.points_to_the_string");
  V_ASSERT(g_match.forward_code == fwd_code && g_match.backward_code == bwd_code, "M.points_to_the_atoms_code");
  /* the state reached by the atom's bytes holds the new match at the head of its list */
  YR_AC_STATE* st = &root;
  for (int i = 0; i < 2; i++)
    if (i < alen)
    {
      YR_AC_STATE* n = NULL;
      for (YR_AC_STATE* c = st->first_child; c != NULL; c = c->siblings) if (c->input == abytes[i]) n = c;
      V_ASSERT(n != NULL && n->depth == i + 1, "M.path_spells_the_atom");
      if (n == NULL) return;
      st = n;
    }
  V_ASSERT(st->matches_ref.buffer_id == YR_AC_STATE_MATCHES_POOL && st->matches_ref.offset == 100, "M.new_match_is_head_of_the_states_list");
  V_ASSERT(g_match.next == NULL, "M.previous_list_follows");
}
