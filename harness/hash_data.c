/* C14: hash.md5 / hash.sha1 / hash.sha256 over a data range (libyara/modules/hash/hash.c:
 * data_md5, data_sha1, data_sha256) -- range handling and result cache.
 *
 * The digest primitives (OpenSSL EVP_*) are replaced by ghost recorders: the
 * obligation is about WHICH bytes are fed to the primitive and under which KEY
 * the result is cached, not about MD5 itself (trusted: OpenSSL).
 *
 * Documented behaviour (modules/hash.rst): digest of exactly the bytes
 * [offset, offset+length) clipped at the end of the data; undefined when offset
 * or length is negative, when the offset is in no block, or when the range
 * crosses a gap between blocks; repeated / interleaved requests return the digest
 * of THEIR range:
 *   K1 the cache is consulted with key (arg_offset, arg_length) in the
 *      algorithm's own namespace, and a hit is returned unchanged
 *   K2 a computed digest is stored under exactly the key it would be looked up
 *      with: (arg_offset, arg_length), same namespace
 *   R  the update segments, concatenated, are the bytes from offset on, each
 *      segment inside its block, contiguous in file offsets, total length
 *      min(length, bytes available to the end of the last contiguous block)
 *   U  undefined (NULL result string) in the documented cases
 * Route B: <= 2 memory blocks of <= 4 bytes with an optional gap; offset, length
 * and the cache content fully symbolic.
 * VARIANT 1 md5, 2 sha1, 3 sha256.
 */
#include "vharness.h"
#include <string.h>
#include <stdlib.h>
#include <stdio.h>

#ifndef VNATIVE
#define sprintf(buf, fmt, x) vstub_hex2((buf), (x))
static int vstub_hex2(char* buf, unsigned x) { buf[0] = 'h'; buf[1] = 'h'; buf[2] = 0; return 2; }
/* strlen of the 32..64 character digest text (return_string): the length is only
 * handed to the yr_object_set_string stub */
#define strlen(s) vstub_strlen(s)
static size_t vstub_strlen(const char* s) { return 1; }
#endif

#include "/repo/libyara/modules/hash/hash.c"

/* ---- ghost digest recorder ---------------------------------------------- */
#define MAXSEG 3
static const uint8_t* g_seg_ptr[MAXSEG];
static size_t g_seg_len[MAXSEG];
static int g_nseg, g_inits, g_finals, g_ctx_live;
static int g_algo; /* 1 md5 2 sha1 3 sha256 */
static int dummy_ctx;
EVP_MD_CTX* EVP_MD_CTX_new(void) { g_ctx_live++; return (EVP_MD_CTX*) &dummy_ctx; }
void EVP_MD_CTX_free(EVP_MD_CTX* c) { g_ctx_live--; }
const EVP_MD* EVP_md5(void) { return (const EVP_MD*) 1; }
const EVP_MD* EVP_sha1(void) { return (const EVP_MD*) 2; }
const EVP_MD* EVP_sha256(void) { return (const EVP_MD*) 3; }
int EVP_DigestInit(EVP_MD_CTX* c, const EVP_MD* t) { g_inits++; g_algo = (int) (size_t) t; return 1; }
int EVP_DigestUpdate(EVP_MD_CTX* c, const void* d, size_t n)
{
  if (g_nseg < MAXSEG) { g_seg_ptr[g_nseg] = d; g_seg_len[g_nseg] = n; }
  g_nseg++;
  return 1;
}
int EVP_DigestFinal(EVP_MD_CTX* c, unsigned char* md, unsigned int* s) { g_finals++; return 1; }

/* ---- ghost cache: one pre-existing entry, one recorded insertion ---------- */
static int64_t in_c_off, in_c_len; static int in_c_ns; /* pre-existing entry (ns 0 = none) */
static int64_t g_lk_off, g_lk_len; static int g_lk_ns, g_lookups;
static int64_t g_add_off, g_add_len; static int g_add_ns, g_adds;
static char cached_digest[4] = "hit";
static int ns_id(const char* ns) { return strcmp(ns, "md5") == 0 ? 1 : strcmp(ns, "sha1") == 0 ? 2 : strcmp(ns, "sha256") == 0 ? 3 : 9; }
void* yr_hash_table_lookup_raw_key(YR_HASH_TABLE* t, const void* key, size_t key_length, const char* ns)
{
  const int64_t* k = key;
  g_lookups++; g_lk_off = k[0]; g_lk_len = k[1]; g_lk_ns = ns_id(ns);
  return (in_c_ns != 0 && g_lk_ns == in_c_ns && k[0] == in_c_off && k[1] == in_c_len) ? cached_digest : NULL;
}
int yr_hash_table_add_raw_key(YR_HASH_TABLE* t, const void* key, size_t key_length, const char* ns, void* value)
{
  const int64_t* k = key;
  g_adds++; g_add_off = k[0]; g_add_len = k[1]; g_add_ns = ns_id(ns);
  return ERROR_SUCCESS;
}
static char dupbuf[4];
char* yr_strdup(const char* s) { dupbuf[0] = s[0]; dupbuf[1] = 0; return dupbuf; }
static YR_OBJECT module_obj;
YR_OBJECT* yr_object_get_root(YR_OBJECT* o) { return &module_obj; }
static const char* g_result; static int g_result_set;
int yr_object_set_string(const char* value, size_t len, YR_OBJECT* object, const char* field, ...)
{
  g_result = value; g_result_set++;
  return ERROR_SUCCESS;
}
void* yr_thread_storage_get_value(YR_THREAD_STORAGE_KEY* k) { return NULL; }
const uint8_t* yr_fetch_block_data(YR_MEMORY_BLOCK* block) { return block->fetch_data(block); }

/* ---- memory blocks ------------------------------------------------------ */
#define BS 4
static uint8_t data0[BS], data1[BS];
static YR_MEMORY_BLOCK blk[2];
static int in_nblocks, g_it;
static YR_MEMORY_BLOCK* it_first(YR_MEMORY_BLOCK_ITERATOR* it) { g_it = 0; return in_nblocks > 0 ? &blk[0] : NULL; }
static YR_MEMORY_BLOCK* it_next(YR_MEMORY_BLOCK_ITERATOR* it) { g_it++; return g_it < in_nblocks ? &blk[g_it] : NULL; }
static const uint8_t* fetch0(YR_MEMORY_BLOCK* b) { return data0; }
static const uint8_t* fetch1(YR_MEMORY_BLOCK* b) { return data1; }

#if VARIANT == 1
#define FN data_md5
#elif VARIANT == 2
#define FN data_sha1
#else
#define FN data_sha256
#endif

void harness(void)
{
  V_IN(int64_t, offset);
  V_IN(int64_t, length);
  V_IN(uint8_t, nblocks);
  V_IN(uint8_t, s0);
  V_IN(uint8_t, s1);
  V_IN(uint8_t, base0);
  V_IN(uint8_t, gap);
  V_IN(int64_t, c_off);
  V_IN(int64_t, c_len);
  V_IN(uint8_t, c_ns);

  V_ASSUME(nblocks <= 2 && s0 >= 1 && s0 <= BS && s1 >= 1 && s1 <= BS && base0 <= 3 && gap <= 2 && c_ns <= 3);
  blk[0].base = base0; blk[0].size = s0; blk[0].fetch_data = fetch0;
  blk[1].base = (uint64_t) base0 + s0 + gap; blk[1].size = s1; blk[1].fetch_data = fetch1;
  in_nblocks = nblocks;
  in_c_off = c_off; in_c_len = c_len; in_c_ns = c_ns;
  static YR_MEMORY_BLOCK_ITERATOR it;
  it.first = it_first; it.next = it_next;
  static YR_SCAN_CONTEXT ctx;
  ctx.iterator = &it;
  static YR_OBJECT ret_obj;
  ret_obj.type = OBJECT_TYPE_STRING;
  YR_OBJECT_FUNCTION* fobj = malloc(sizeof(YR_OBJECT_FUNCTION));
  V_ASSUME(fobj != NULL);
  fobj->return_obj = &ret_obj;
  YR_VALUE args[2];
  args[0].i = offset; args[1].i = length;
  g_nseg = g_inits = g_finals = g_ctx_live = g_lookups = g_adds = g_result_set = 0;

  int rc = FN(args, &ctx, fobj);

  V_ASSERT(rc == ERROR_SUCCESS && g_result_set == 1, "one_result");
  V_ASSERT(g_ctx_live == 0, "digest_context_released");

  int bad_args = offset < 0 || length < 0 || nblocks == 0 || (uint64_t) offset < blk[0].base;
  if (bad_args)
  {
    V_REACH(3);
    V_ASSERT(g_result == NULL, "U.negative_or_before_first_block_is_undefined");
    V_ASSERT(g_adds == 0, "U.nothing_cached_for_undefined");
    return;
  }
  /* K1 */
  V_ASSERT(g_lookups == 1 && g_lk_off == offset && g_lk_len == length && g_lk_ns == VARIANT, "K1.cache_lookup_key_is_the_request");
  if (c_ns == VARIANT && c_off == offset && c_len == length)
  {
    V_REACH(4);
    V_ASSERT(g_result == cached_digest && g_nseg == 0 && g_adds == 0, "K1.cache_hit_returned_unchanged");
    return;
  }
  /* which block holds the first byte? */
  int first = -1;
  for (int i = 0; i < 2; i++)
    if (i < nblocks && first < 0 && (uint64_t) offset >= blk[i].base && (uint64_t) offset < blk[i].base + blk[i].size) first = i;
  if (first < 0)
  {
    V_ASSERT(g_result == NULL && g_adds == 0, "U.offset_in_no_block_is_undefined");
    return;
  }
  /* known finding KF-C14-1 (separate, narrow obligation): a ZERO-length range that
   * starts exactly at the first byte of a block that directly follows another
   * block is reported undefined (the loop's early exit fires on the previous
   * block) instead of yielding the digest of the empty string */
  int kf1 = (length == 0 && first == 1 && (uint64_t) offset == blk[0].base + blk[0].size);
  if (kf1)
  {
    V_ASSERT(g_result != NULL, "KF1.zero_length_range_at_start_of_second_block");
    return;
  }
  uint64_t avail0 = blk[first].base + blk[first].size - (uint64_t) offset;
  int crosses = (uint64_t) length > avail0 && first == 0 && nblocks == 2;
  if (crosses && gap > 0)
  {
    V_REACH(5);
    V_ASSERT(g_result == NULL && g_adds == 0, "U.range_across_a_gap_is_undefined");
    return;
  }
  V_REACH(6);
  V_ASSERT(g_algo == VARIANT, "algorithm");
  /* R: the bytes handed to the digest */
  uint64_t want = (uint64_t) length < avail0 ? (uint64_t) length : avail0;
  const uint8_t* d0 = first == 0 ? data0 : data1;
  V_ASSERT(g_nseg >= 1 && g_seg_ptr[0] == d0 + ((uint64_t) offset - blk[first].base) && g_seg_len[0] == want, "R.first_segment_starts_at_offset");
  uint64_t total = g_seg_len[0];
  if (crosses)
  {
    uint64_t rest = (uint64_t) length - avail0;
    uint64_t want1 = rest < s1 ? rest : s1;
    V_ASSERT(g_nseg == 2 && g_seg_ptr[1] == data1 && g_seg_len[1] == want1, "R.second_segment_continues_in_next_block");
    total += g_seg_len[1];
  }
  else
    V_ASSERT(g_nseg == 1, "R.no_further_segment");
  /* K2 */
#if VNEG == 1
  V_ASSERT(g_adds == 1 && g_add_off == offset && g_add_len == (int64_t) ((uint64_t) length - total) && g_add_ns == VARIANT, "K2.stored_under_the_requests_key");
#else
  V_ASSERT(g_adds == 1 && g_add_off == offset && g_add_len == length && g_add_ns == VARIANT, "K2.stored_under_the_requests_key");
#endif
  V_ASSERT(g_result != NULL && g_result != cached_digest, "defined_result");
}
