/* C02 / C12: atom helpers of libyara/atoms.c under function contracts (dfcc; loops bounded
 * by the code constant YR_MAX_ATOM_LENGTH = 4 are unwound completely).
 * ASEL 1 _yr_atoms_trim: strips unknown (mask 00) bytes from both ends of an atom taken
 *        from a hex string. For the returned shift s: the atom is now the old bytes/masks
 *        [s, s + length'), s + length' <= old length (the atom is still a contiguous piece
 *        of the pattern at distance s), a non-empty result starts with a known or partly
 *        known byte, and nothing at index >= 4 is touched.
 * ASEL 2 yr_atoms_heuristic_quality: for every atom of length <= 4 and every case table
 *        the quality lies in [0, 255] (so any quality table/heuristic can only change WHICH
 *        atom is chosen, never push the comparison out of range); the atom is not modified.
 */
#include "vharness.h"
#include <string.h>
#include <stdlib.h>

#ifdef VMODE_CONTRACT
#include <yara/atoms.h>
#include <yara/limits.h>
#if ASEL == 1
int _yr_atoms_trim(YR_ATOM* atom)
    /* clang-format off */
__CPROVER_requires(__CPROVER_is_fresh(atom, sizeof(YR_ATOM)))
__CPROVER_requires(atom->length <= YR_MAX_ATOM_LENGTH)
__CPROVER_assigns(*atom)
__CPROVER_ensures(__CPROVER_return_value >= 0 && __CPROVER_return_value <= __CPROVER_old(atom->length))
#if VNEG == 1
__CPROVER_ensures(atom->length + __CPROVER_return_value == __CPROVER_old(atom->length))
#else
__CPROVER_ensures(atom->length + __CPROVER_return_value <= __CPROVER_old(atom->length))
#endif
__CPROVER_ensures(atom->length > 0 ==> atom->mask[0] != 0)
__CPROVER_ensures((__CPROVER_return_value == 0 && atom->length > 0) ==> (atom->bytes[0] == __CPROVER_old(atom->bytes[0]) && atom->mask[0] == __CPROVER_old(atom->mask[0])))
__CPROVER_ensures((__CPROVER_return_value == 0 && atom->length > 1) ==> (atom->bytes[1] == __CPROVER_old(atom->bytes[1]) && atom->mask[1] == __CPROVER_old(atom->mask[1])))
__CPROVER_ensures((__CPROVER_return_value == 0 && atom->length > 2) ==> (atom->bytes[2] == __CPROVER_old(atom->bytes[2]) && atom->mask[2] == __CPROVER_old(atom->mask[2])))
__CPROVER_ensures((__CPROVER_return_value == 0 && atom->length > 3) ==> (atom->bytes[3] == __CPROVER_old(atom->bytes[3]) && atom->mask[3] == __CPROVER_old(atom->mask[3])))
__CPROVER_ensures((__CPROVER_return_value == 1 && atom->length > 0) ==> (atom->bytes[0] == __CPROVER_old(atom->bytes[1]) && atom->mask[0] == __CPROVER_old(atom->mask[1])))
__CPROVER_ensures((__CPROVER_return_value == 1 && atom->length > 1) ==> (atom->bytes[1] == __CPROVER_old(atom->bytes[2]) && atom->mask[1] == __CPROVER_old(atom->mask[2])))
__CPROVER_ensures((__CPROVER_return_value == 1 && atom->length > 2) ==> (atom->bytes[2] == __CPROVER_old(atom->bytes[3]) && atom->mask[2] == __CPROVER_old(atom->mask[3])))
__CPROVER_ensures((__CPROVER_return_value == 2 && atom->length > 0) ==> (atom->bytes[0] == __CPROVER_old(atom->bytes[2]) && atom->mask[0] == __CPROVER_old(atom->mask[2])))
__CPROVER_ensures((__CPROVER_return_value == 2 && atom->length > 1) ==> (atom->bytes[1] == __CPROVER_old(atom->bytes[3]) && atom->mask[1] == __CPROVER_old(atom->mask[3])))
__CPROVER_ensures((__CPROVER_return_value == 3 && atom->length > 0) ==> (atom->bytes[0] == __CPROVER_old(atom->bytes[3]) && atom->mask[0] == __CPROVER_old(atom->mask[3])))
    /* clang-format on */
    ;
#define CALL() do { YR_ATOM* a; _yr_atoms_trim(a); } while (0)
#else
int yr_atoms_heuristic_quality(YR_ATOMS_CONFIG* config, YR_ATOM* atom)
    /* clang-format off */
__CPROVER_requires(__CPROVER_is_fresh(atom, sizeof(YR_ATOM)))
__CPROVER_requires(atom->length <= YR_MAX_ATOM_LENGTH)
__CPROVER_assigns()
#if VNEG == 1
__CPROVER_ensures(__CPROVER_return_value >= 128)
#else
__CPROVER_ensures(__CPROVER_return_value >= YR_MIN_ATOM_QUALITY && __CPROVER_return_value <= YR_MAX_ATOM_QUALITY)
#endif
    /* clang-format on */
    ;
#define CALL() do { YR_ATOMS_CONFIG* c; YR_ATOM* a; yr_atoms_heuristic_quality(c, a); } while (0)
#endif
#endif

#include "/repo/libyara/atoms.c"

#ifdef VMODE_CONTRACT
void harness(void) { CALL(); }
#else
void harness(void) {}
#endif
