/* C05: yr_bitmask_find_non_colliding_offset (libyara/bitmask.c) -- the function that
 * interleaves the 257-slot transition rows of different automaton states in one table.
 * Two states (possibly belonging to strings of unrelated rules) must never share a slot:
 *   for the returned offset r and EVERY bit t of B that is set (ghost t):
 *   bit r+t of A is clear, as far as it lies inside A's slots; r <= len_a; A and B are
 *   not modified; no read outside A's (len_a/64+1) and B's (len_b/64+1) slots.
 * Route B: len_a <= 127 (2 slots), len_b <= 127 (2 slots, so that the cross-slot shift
 * `b[k-1] >> (64-j)` is exercised); all bit patterns symbolic. The only call site uses
 * len_b = 257 (5 slots): same code path, longer k loop.
 */
#include "vharness.h"
#include <stdlib.h>
#include <string.h>

#include "/repo/libyara/bitmask.c"

#define SLOTS 2

void harness(void)
{
  V_IN_ARR(uint64_t, av, SLOTS);
  V_IN_ARR(uint64_t, bv, SLOTS);
  V_IN(uint32_t, len_a);
  V_IN(uint32_t, len_b);
  V_IN(uint32_t, off0);
  V_IN(uint32_t, t); /* ghost: any bit of B */
  V_ASSUME(len_a < 64 * SLOTS);
  /* precondition taken from the only call site (_yr_ac_find_suitable_transition_table_slot):
   * len_b = YR_BITMASK_SLOT_BITS * 4 + 1 = 257, i.e. the last slot of B holds exactly one
   * bit and nothing above it. The stand-in uses 1 * 64 + 1 = 65 (same shape, shorter k
   * loop). NOTE (observation, DESIGN.md A.3): for a general len_b whose last slot holds
   * more than one bit, the bits of B shifted out of B's last slot are never compared with
   * A -- CBMC finds the collision at len_b = 63, j = 32; the call site cannot reach it. */
  V_ASSUME(len_b == 65);
  V_ASSUME((bv[1] & ~(uint64_t) 1) == 0);
  V_ASSUME(off0 <= len_a);
  V_ASSUME(bv[0] & 1); /* first bit of B set: the function's documented precondition */
  size_t sa = len_a / 64 + 1, sb = len_b / 64 + 1;
  YR_BITMASK* a = malloc(8 * sa);
  YR_BITMASK* b = malloc(8 * sb);
  V_ASSUME(a != NULL && b != NULL);
  for (size_t i = 0; i < SLOTS; i++) { if (i < sa) a[i] = av[i]; if (i < sb) b[i] = bv[i]; }
  /* bits of B beyond len_b are not part of B */
  uint32_t off = off0;

  uint32_t r = yr_bitmask_find_non_colliding_offset(a, b, len_a, len_b, &off);

  V_ASSERT(r < 64 * sa, "offset_inside_As_slots");
  for (size_t i = 0; i < SLOTS; i++)
  {
    if (i < sa) V_ASSERT(a[i] == av[i], "frame.A_unchanged");
    if (i < sb) V_ASSERT(b[i] == bv[i], "frame.B_unchanged");
  }
  /* the caller uses the offset without growing the table only if the whole row fits:
   * r + len_b <= len_a (otherwise it enlarges A first and the row lands in fresh slots) */
  if (t < len_b && ((bv[t / 64] >> (t % 64)) & 1) && (uint64_t) r + len_b <= len_a)
  {
    uint64_t pos = (uint64_t) r + t;
    if (pos / 64 < sa)
    {
      V_REACH(3);
#if VNEG == 1
      V_ASSERT((av[pos / 64] >> (pos % 64)) & 1, "neg");
#endif
      V_ASSERT(((av[pos / 64] >> (pos % 64)) & 1) == 0, "no_bit_of_B_lands_on_a_set_bit_of_A");
    }
  }
  free(a); free(b);
}
