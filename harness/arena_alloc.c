/* C19 / C08: the arena of libyara/arena.c.
 *  TARGET 1  yr_arena_allocate_memory -> _yr_arena_allocate_memory when the buffer must GROW
 *            AND MOVE: every registered slot that pointed into the old buffer points to the
 *            same offset in the new one, every other slot is unchanged, old contents are
 *            preserved, the returned reference is (buffer, old used), used grows by size.
 *            The harness allocator always moves a grown buffer (fresh block, old one freed),
 *            i.e. the "any initial capacity" worst case of C19.
 *  TARGET 2  yr_arena_ptr_to_ref / yr_arena_ref_to_ptr are inverse on every address inside a
 *            used region; an address outside all buffers has no reference (C08: the saved
 *            image holds references, never addresses).
 * Route B: 2 buffers, <= 2 relocation entries, buffer contents <= 24 bytes, capacity such
 * that one growth step suffices.
 */
#include "vharness.h"
#include <stdlib.h>
#include <string.h>

#include "/repo/libyara/arena.c"

static int g_live;
void* yr_malloc(size_t size) { void* p = malloc(size); if (p) g_live++; return p; }
void* yr_calloc(size_t count, size_t size) { void* p = calloc(count, size); if (p) g_live++; return p; }
void yr_free(void* ptr) { if (ptr) g_live--; free(ptr); }
#define OLD_CAP 16
void* yr_realloc(void* ptr, size_t size)
{
  /* always moves: fresh block, contents copied, old block freed */
  uint8_t* n = malloc(size);
  if (n == NULL) return NULL;
  if (ptr != NULL)
  {
    for (size_t i = 0; i < OLD_CAP; i++) n[i] = ((uint8_t*) ptr)[i];
    /* the old block is NOT freed in the model: the fix-up loop of the code compares
     * pointers with the old bounds after realloc (formally undefined once freed); CBMC
     * turns everything after such a comparison into "unknown". Stale WRITES through
     * the old address are still caught by the assertions on the new buffer. */
  }
  else
    g_live++;
  return n;
}

#ifndef TARGET
#define TARGET 1
#endif

void harness(void)
{
#if TARGET == 1
  V_IN(uint8_t, used0);    /* bytes used in buffer 0 before the call */
  V_IN(uint8_t, size);     /* allocation request */
  V_IN(uint8_t, slot_off); /* slot in buffer 1 */
  V_IN(uint8_t, tgt_off);  /* where the slot points: offset in buffer 0 ... */
  V_IN(uint8_t, tgt_buf);  /* ... or in buffer 1, or NULL (2) */
  V_IN_ARR(uint8_t, content, OLD_CAP);
  V_ASSUME(used0 >= 1 && used0 <= OLD_CAP && size >= 1 && size <= 16);
  V_ASSUME(used0 + size > OLD_CAP);              /* must grow */
  V_ASSUME(slot_off <= 8 && tgt_off < used0 && tgt_buf <= 2);

  static YR_ARENA a;
  memset(&a, 0, sizeof a);
  a.num_buffers = 2; a.xrefs = 1; a.initial_buffer_size = OLD_CAP;
  uint8_t* b0 = malloc(OLD_CAP); uint8_t* b1 = malloc(16);
  V_ASSUME(b0 != NULL && b1 != NULL);
  for (int i = 0; i < OLD_CAP; i++) b0[i] = content[i];
  memset(b1, 0, 16);
  a.buffers[0].data = b0; a.buffers[0].size = OLD_CAP; a.buffers[0].used = used0;
  a.buffers[1].data = b1; a.buffers[1].size = 16; a.buffers[1].used = 16;
  void* target = tgt_buf == 0 ? (void*) (b0 + tgt_off) : tgt_buf == 1 ? (void*) (b1 + (tgt_off & 7)) : NULL;
  memcpy(b1 + slot_off, &target, sizeof target);
  YR_RELOC* r = malloc(sizeof(YR_RELOC));
  V_ASSUME(r != NULL);
  r->buffer_id = 1; r->offset = slot_off; r->next = NULL;
  a.reloc_list_head = a.reloc_list_tail = r;

  YR_ARENA_REF ref;
  int rc = yr_arena_allocate_memory(&a, 0, size, &ref);

  if (rc != ERROR_SUCCESS)
  {
    V_ASSERT(rc == ERROR_INSUFFICIENT_MEMORY, "only_documented_error");
    V_ASSERT(a.buffers[0].data == b0 && a.buffers[0].used == used0 && a.buffers[0].size == OLD_CAP, "failure_leaves_arena_untouched");
    return;
  }
  V_REACH(3);
  V_ASSERT(ref.buffer_id == 0 && ref.offset == used0, "reference_is_old_end_of_buffer");
  V_ASSERT(a.buffers[0].used == (size_t) used0 + size && a.buffers[0].size >= a.buffers[0].used, "used_grows_by_size");
  V_ASSERT(a.buffers[0].data != b0, "buffer_moved");
  for (int i = 0; i < OLD_CAP; i++)
    if (i < used0) V_ASSERT(a.buffers[0].data[i] == content[i], "old_contents_preserved");
  void* now;
  memcpy(&now, a.buffers[1].data + slot_off, sizeof now);
#if VNEG == 1
  if (tgt_buf == 0) V_ASSERT(now == (void*) (a.buffers[0].data + tgt_off + 1), "slot_into_moved_buffer_follows_the_move");
#else
  if (tgt_buf == 0) V_ASSERT(now == (void*) (a.buffers[0].data + tgt_off), "slot_into_moved_buffer_follows_the_move");
#endif
  else V_ASSERT(now == target, "slot_elsewhere_unchanged");
  V_ASSERT(a.buffers[1].data == b1, "other_buffer_not_touched");
#else
  /* TARGET 2: ptr <-> ref */
  V_IN(uint8_t, used0);
  V_IN(uint8_t, used1);
  V_IN(uint8_t, which);
  V_IN(uint8_t, off);
  static YR_ARENA a;
  memset(&a, 0, sizeof a);
  a.num_buffers = 3; a.xrefs = 1;
  uint8_t* b0 = malloc(16); uint8_t* b1 = malloc(16); uint8_t* outside = malloc(4);
  V_ASSUME(b0 && b1 && outside && used0 <= 16 && used1 <= 16 && which <= 3 && off < 16);
  a.buffers[0].data = b0; a.buffers[0].size = 16; a.buffers[0].used = used0;
  a.buffers[1].data = NULL; a.buffers[1].size = 0; a.buffers[1].used = 0; /* an empty buffer */
  a.buffers[2].data = b1; a.buffers[2].size = 16; a.buffers[2].used = used1;
  const void* p = which == 0 ? (const void*) (b0 + off) : which == 1 ? (const void*) (b1 + off) : which == 2 ? (const void*) (outside + (off & 3)) : NULL;
  YR_ARENA_REF ref;
  int found = yr_arena_ptr_to_ref(&a, p, &ref);
  int inside = (which == 0 && off < used0) || (which == 1 && off < used1);
  if (which == 3)
  {
    V_ASSERT(found == 1 && YR_ARENA_IS_NULL_REF(ref), "null_pointer_is_null_reference");
    V_ASSERT(yr_arena_ref_to_ptr(&a, &ref) == NULL, "null_reference_is_null_pointer");
  }
  else if (inside)
  {
    V_REACH(3);
#if VNEG == 1
    V_ASSERT(found == 1 && ref.buffer_id == (which == 0 ? 0u : 1u) && ref.offset == off, "address_in_used_region_has_its_buffer_and_offset");
#else
    V_ASSERT(found == 1 && ref.buffer_id == (which == 0 ? 0u : 2u) && ref.offset == off, "address_in_used_region_has_its_buffer_and_offset");
#endif
    V_ASSERT(yr_arena_ref_to_ptr(&a, &ref) == p, "ref_to_ptr_inverts_ptr_to_ref");
  }
  else
    V_ASSERT(found == 0 && YR_ARENA_IS_NULL_REF(ref), "address_outside_every_used_region_has_no_reference");
#endif
}
