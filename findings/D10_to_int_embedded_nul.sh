#!/bin/bash
# D10 (C14): string.to_int("12\x0034") is 12: strtoll stops at the embedded NUL and the module only
# checks *endp == '\0', so a 5-byte string that is not a numeral converts. Expected: undefined.
# usage: D10_to_int_embedded_nul.sh <dir with built yara>   exit 0: undefined, 1: defect present
Y=${1:-/repo}
T=$(mktemp -d)
printf 'import "string"\nrule nul { condition: string.to_int("12\\x0034") == 12 }\n' > $T/r.yar
echo hello > $T/d.bin
OUT=$($Y/yara $T/r.yar $T/d.bin)
rm -rf $T
if echo "$OUT" | grep -q nul; then echo 'DEFECT: string.to_int("12\x0034") == 12'; exit 1; fi
echo 'string.to_int("12\x0034") is not 12'; exit 0
