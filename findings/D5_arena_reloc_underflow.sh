#!/bin/sh
# D5 (C17): yr_arena_load_stream checks `reloc_ref.offset > b->used - sizeof(void*)`, which
# underflows for a buffer shorter than 8 bytes: any 32-bit offset is then accepted and
# 8 bytes are read and written far outside the buffer (and the garbage read there goes
# through yr_arena_ref_to_ptr, whose assert()s abort).
# A 34-byte damaged compiled-rules file makes `yara -C` crash instead of reporting an error.
# usage: D5_arena_reloc_underflow.sh <dir with yara binary>   exit 0 = rejected cleanly, 1 = crash
Y=${1:-/repo}; T=$(mktemp -d); V=$(printf '%03o' ${ARENA_VERSION:-21})
# header: "YARA", version, 1 buffer | table: offset=18 (8 bytes), size=4 | body 4 bytes | reloc: buffer 0, offset 0x7ffffff0
printf "YARA\\${V}\\001" > $T/bad.yarc
printf '\022\000\000\000\000\000\000\000\004\000\000\000' >> $T/bad.yarc
printf 'AAAA' >> $T/bad.yarc
printf '\000\000\000\000\360\377\377\177' >> $T/bad.yarc
echo x > $T/f
$Y/yara -C $T/bad.yarc $T/f > $T/out 2>&1; rc=$?
cat $T/out | head -3
rm -rf $T
if [ $rc -ge 128 ]; then echo "D5: yara -C killed by signal (rc=$rc) on a damaged 34-byte rules file"; exit 1; fi
# second file: the slot is inside the buffer but holds a reference to a buffer that does not exist
T=$(mktemp -d)
printf "YARA\\${V}\\001" > $T/bad2.yarc
printf '\022\000\000\000\000\000\000\000\010\000\000\000' >> $T/bad2.yarc
printf '\007\000\000\000\005\000\000\000' >> $T/bad2.yarc
printf '\000\000\000\000\000\000\000\000' >> $T/bad2.yarc
echo x > $T/f
$Y/yara -C $T/bad2.yarc $T/f > $T/out 2>&1; rc=$?
head -3 $T/out; rm -rf $T
if [ $rc -ge 128 ]; then echo "D5: yara -C killed by signal (rc=$rc): relocation slot holding a reference to a non-existent buffer"; exit 1; fi
exit 0
