#!/bin/bash
# D9 (C04): OP_DBL_LT answers FALSE when an operand is undefined, every other operator
# (including the other floating-point comparisons) answers UNDEFINED. `not (undefined < 7.0)`
# is therefore true, while `not (undefined > 7.0)` and `not (undefined <= 7.0)` are false.
# usage: D9_dbl_lt_undefined.sh <dir with built yara>   exit 0: consistent, 1: defect present
Y=${1:-/repo}
T=$(mktemp -d)
cat > $T/r.yar <<'R'
import "math"
rule lt_undef { condition: not (math.entropy(1000000, 5) < 7.0) }
rule gt_undef { condition: not (math.entropy(1000000, 5) > 7.0) }
R
echo hello > $T/d.bin
OUT=$($Y/yara $T/r.yar $T/d.bin)
rm -rf $T
if echo "$OUT" | grep -q lt_undef; then echo "DEFECT: not (undefined < 7.0) is true"; exit 1; fi
echo "not (undefined < 7.0) is not true, like the other comparisons"; exit 0
