#!/bin/bash
# D8 (C04): "P% of them" is evaluated as ((double) found / count) * 100 >= P. For 29 of 50
# members 29/50*100 is 57.99999999999999 in double arithmetic, so `58% of them` is false although
# exactly 58 percent of the strings match (same for 29 of 100 with 29%, 57/100, 58/100, ...).
# usage: D8_percent_of_rounding.sh <dir with built yara>   exit 0: correct, 1: defect present
Y=${1:-/repo}
T=$(mktemp -d)
python3 - "$T" <<'PY'
import sys
t=sys.argv[1]
strs=["$s%02d = \"needle_%02d_xyz\""%(i,i) for i in range(50)]
open(t+'/r.yar','w').write("rule pct58 { strings:\n  "+"\n  ".join(strs)+"\n condition: 58% of them }\n")
open(t+'/data.bin','w').write(" ".join("needle_%02d_xyz"%i for i in range(29)))
PY
OUT=$($Y/yara $T/r.yar $T/data.bin)
rm -rf $T
if echo "$OUT" | grep -q pct58; then echo "58% of them holds for 29 of 50 matching strings"; exit 0; fi
echo "DEFECT: 29 of 50 strings match, '58% of them' is false"; exit 1
