#!/bin/sh
# D3 (C07/C12): compile-time INT64_MIN \ -1 and INT64_MIN % -1 kill the compiler (SIGFPE);
# the VM yields undefined for the same operands.
Y=${1:-/repo}; T=$(mktemp -d); RC=0
echo 'rule r { condition: (-9223372036854775807 - 1) \ -1 == 0 or true }' > $T/d.yar
echo 'rule r { condition: (-9223372036854775807 - 1) % -1 == 0 or true }' > $T/m.yar
for f in d m; do $Y/yarac $T/$f.yar $T/o.yarc >/dev/null 2>&1; rc=$?; if [ $rc -ge 128 ]; then echo "D3: yarac killed by signal on $f.yar (rc=$rc)"; RC=1; fi; done
rm -rf $T; exit $RC
