/* D4 (C10): scanner->entry_point survives from one scan to the next.
 * build: gcc D4_entry_point_history.c -I<repo>/libyara/include <repo>/.libs/libyara.a -lcrypto -lm -lpthread -o d4
 * exit 0 = reused scanner agrees with a fresh scanner, 1 = defect present */
#include <stdio.h>
#include <string.h>
#include <yara.h>
static int hits;
static int cb(YR_SCAN_CONTEXT* c, int msg, void* d, void* u)
{
  if (msg == CALLBACK_MSG_RULE_MATCHING) hits++;
  return CALLBACK_CONTINUE;
}
int main(void)
{
  /* minimal ELF64 header with e_entry inside a PT_LOAD segment */
  unsigned char elf[256];
  memset(elf, 0, sizeof elf);
  memcpy(elf, "\x7f""ELF\x02\x01\x01", 7);
  elf[16] = 2; elf[18] = 62; elf[20] = 1;           /* ET_EXEC, x86-64, version */
  *(unsigned long long*) (elf + 24) = 0x400080;     /* e_entry */
  *(unsigned long long*) (elf + 32) = 64;           /* e_phoff */
  *(unsigned short*) (elf + 52) = 64; *(unsigned short*) (elf + 54) = 56; *(unsigned short*) (elf + 56) = 1;
  *(unsigned int*) (elf + 64) = 1;                  /* PT_LOAD */
  *(unsigned long long*) (elf + 64 + 8) = 0;        /* p_offset */
  *(unsigned long long*) (elf + 64 + 16) = 0x400000;/* p_vaddr */
  *(unsigned long long*) (elf + 64 + 32) = 256; *(unsigned long long*) (elf + 64 + 40) = 256;
  const char* text = "just some text, not an executable";
  YR_COMPILER* comp; YR_RULES* rules; YR_SCANNER *s1, *s2;
  yr_initialize();
  yr_compiler_create(&comp);
  if (yr_compiler_add_string(comp, "rule ep { condition: defined entrypoint }", NULL) != 0) return 2;
  yr_compiler_get_rules(comp, &rules);
  yr_scanner_create(rules, &s1); yr_scanner_set_callback(s1, cb, NULL);
  yr_scanner_create(rules, &s2); yr_scanner_set_callback(s2, cb, NULL);
  hits = 0; yr_scanner_scan_mem(s1, elf, sizeof elf); int elf_hits = hits;
  hits = 0; yr_scanner_scan_mem(s1, (const uint8_t*) text, strlen(text)); int reused = hits;
  hits = 0; yr_scanner_scan_mem(s2, (const uint8_t*) text, strlen(text)); int fresh = hits;
  printf("elf: %d, text on reused scanner: %d, text on fresh scanner: %d\n", elf_hits, reused, fresh);
  if (elf_hits != 1) { printf("control failed: ELF entry point not detected\n"); return 2; }
  return reused == fresh ? 0 : 1;
}
