/* KF-C14-1 (C14, known finding, not fixed): hash.md5/sha1/sha256(offset, 0) is undefined when
 * `offset` is the first byte of a memory block that directly follows another block; for any
 * other offset inside the data it is the digest of the empty string.
 * build: gcc KF1_hash_zero_length_block_start.c -I<repo>/libyara/include <repo>/.libs/libyara.a -lcrypto -lm -lpthread
 * exit 0: md5(4,0) behaves like md5(5,0); exit 1: finding present */
#include <stdio.h>
#include <string.h>
#include <yara.h>
static YR_MEMORY_BLOCK blocks[2]; static int pos;
static const uint8_t* fetch(YR_MEMORY_BLOCK* b) { return (const uint8_t*) b->context; }
static YR_MEMORY_BLOCK* first(YR_MEMORY_BLOCK_ITERATOR* it) { pos = 0; it->last_error = ERROR_SUCCESS; return &blocks[0]; }
static YR_MEMORY_BLOCK* next(YR_MEMORY_BLOCK_ITERATOR* it) { pos++; it->last_error = ERROR_SUCCESS; return pos < 2 ? &blocks[pos] : NULL; }
static int m4, m5, c4, c5;
static int cb(YR_SCAN_CONTEXT* c, int msg, void* d, void* u)
{
  if (msg == CALLBACK_MSG_RULE_MATCHING)
  {
    const char* id = ((YR_RULE*) d)->identifier;
    if (!strcmp(id, "at4")) m4 = 1; else if (!strcmp(id, "at5")) m5 = 1; else if (!strcmp(id, "cnt4")) c4 = 1; else c5 = 1;
  }
  return CALLBACK_CONTINUE;
}
int main(void)
{
  YR_COMPILER* comp; YR_RULES* rules; YR_MEMORY_BLOCK_ITERATOR it;
  yr_initialize(); yr_compiler_create(&comp);
  if (yr_compiler_add_string(comp,
      "import \"hash\"\nimport \"math\"\n"
      /* the same loop shape in math.c get_distribution: math.count(byte, 4, 0) is undefined, (byte, 5, 0) is 0 */
      "rule cnt4 { condition: math.count(0x61, 4, 0) == 0 }\n"
      "rule cnt5 { condition: math.count(0x61, 5, 0) == 0 }\n"
      "rule at4 { condition: hash.md5(4, 0) == \"d41d8cd98f00b204e9800998ecf8427e\" }\n"
      "rule at5 { condition: hash.md5(5, 0) == \"d41d8cd98f00b204e9800998ecf8427e\" }\n", NULL) != 0) return 2;
  yr_compiler_get_rules(comp, &rules);
  blocks[0].base = 0; blocks[0].size = 4; blocks[0].context = "abcd"; blocks[0].fetch_data = fetch;
  blocks[1].base = 4; blocks[1].size = 4; blocks[1].context = "efgh"; blocks[1].fetch_data = fetch;
  it.first = first; it.next = next; it.file_size = NULL; it.last_error = ERROR_SUCCESS;
  yr_rules_scan_mem_blocks(rules, &it, 0, cb, NULL, 0);
  printf("md5(4,0)==md5(\"\"): %d   md5(5,0)==md5(\"\"): %d\n", m4, m5);
  printf("math.count(0x61,4,0)==0: %d   math.count(0x61,5,0)==0: %d\n", c4, c5);
  if (c5 == 1 && c4 != 1) return 1;
  return (m5 == 1 && m4 == 1) ? 0 : (m5 == 1 ? 1 : 2);
}
