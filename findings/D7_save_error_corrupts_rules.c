/* D7 (C08): when the stream fails while yr_rules_save_stream writes the buffers or the
 * relocation table, yr_arena_save_stream returns early and leaves every relocatable pointer
 * of the in-memory rules replaced by a (buffer, offset) reference: the ORIGINAL rules are
 * unusable afterwards (the next scan dereferences garbage).
 * build: gcc D7_save_error_corrupts_rules.c -I<repo>/libyara/include <repo>/.libs/libyara.a -lcrypto -lm -lpthread
 * exit 0: rules still scan correctly after a failed save; 1: crash or wrong result */
#include <stdio.h>
#include <string.h>
#include <unistd.h>
#include <sys/wait.h>
#include <yara.h>
static size_t budget;
static size_t wr(const void* p, size_t size, size_t count, void* ud)
{
  if (size * count > budget) return 0; /* "disk full" */
  budget -= size * count;
  return count;
}
static int hits;
static int cb(YR_SCAN_CONTEXT* c, int msg, void* d, void* u) { if (msg == CALLBACK_MSG_RULE_MATCHING) hits++; return CALLBACK_CONTINUE; }
int main(void)
{
  YR_COMPILER* comp; YR_RULES* rules;
  yr_initialize(); yr_compiler_create(&comp);
  if (yr_compiler_add_string(comp, "rule r { strings: $a = \"abcd\" condition: $a }", NULL) != 0) return 2;
  yr_compiler_get_rules(comp, &rules);
  YR_STREAM st; st.user_data = NULL; st.write = wr; st.read = NULL;
  budget = 200; /* enough for header and table, not for the bodies */
  int rc = yr_rules_save_stream(rules, &st);
  printf("yr_rules_save_stream = %d (expected an error)\n", rc);
  if (rc == ERROR_SUCCESS) return 2;
  fflush(stdout);
  pid_t pid = fork();
  if (pid == 0)
  {
    hits = 0;
    int r = yr_rules_scan_mem(rules, (const uint8_t*) "xxabcdxx", 8, 0, cb, NULL, 0);
    _exit((r == ERROR_SUCCESS && hits == 1) ? 0 : 3);
  }
  int status; waitpid(pid, &status, 0);
  if (WIFSIGNALED(status)) { printf("scan with the original rules after the failed save: killed by signal %d\n", WTERMSIG(status)); return 1; }
  printf("scan after failed save: exit %d\n", WEXITSTATUS(status));
  return WEXITSTATUS(status) == 0 ? 0 : 1;
}
