#!/bin/sh
# D2 (C12): an integer external used after `at` is frozen to its compile-time value.
Y=${1:-/repo}; T=$(mktemp -d)
printf 'xxxxabcd' > $T/f
echo 'rule r { strings: $a = "abcd" condition: $a at ext }' > $T/r.yar
$Y/yarac -d ext=0 $T/r.yar $T/r.yarc || exit 2
A=$($Y/yara -C -d ext=4 $T/r.yarc $T/f | wc -l); rm -rf $T
[ "$A" = 1 ] && exit 0; echo "D2: compiled with ext=0, scanned with ext=4: '\$a at ext' matches=$A (expected 1)"; exit 1
