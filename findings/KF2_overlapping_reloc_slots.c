/* KF-C17-2 (C17, known finding, not fixed): yr_arena_load_stream accepts a compiled-rules image
 * whose relocation table names two OVERLAPPING 8-byte slots (offsets 0 and 4 of one buffer).
 * Converting the second slot overwrites half of the pointer already stored in the first one:
 * the loader returns ERROR_SUCCESS with a relocatable slot that holds neither NULL nor an
 * address inside the arena.
 * (manifests when heap addresses are below 4 GiB, e.g. a non-PIE executable: the half pointer
 * that the second slot reads back then looks like a reference to buffer 0)
 * build: gcc -no-pie KF2_overlapping_reloc_slots.c -I<repo>/libyara/include -I<repo>/libyara <repo>/.libs/libyara.a -lcrypto -lm -lpthread
 * exit 0: image rejected or all slots sane; exit 1: finding present */
#include <stdio.h>
#include <string.h>
#include <stdint.h>
#include <yara.h>
#include <yara/arena.h>
#include <yara/stream.h>
static unsigned char img[64]; static size_t img_len, pos;
static size_t rd(void* p, size_t size, size_t count, void* ud)
{
  size_t done = 0;
  while (done < count && size <= img_len - pos) { memcpy((char*) p + done * size, img + pos, size); pos += size; done++; }
  return done;
}
int main(void)
{
  size_t n = 0;
  memcpy(img, "YARA", 4); img[4] = YR_ARENA_FILE_VERSION; img[5] = 1; n = 6;
  uint64_t off = 18; uint32_t size = 12;
  memcpy(img + n, &off, 8); memcpy(img + n + 8, &size, 4); n += 12;
  /* body: two references (buffer 0, offset 0) overlapping at bytes 0..7 and 4..11 */
  uint32_t body[3] = {0, 0, 0};
  memcpy(img + n, body, 12); n += 12;
  uint32_t r1[2] = {0, 0}, r2[2] = {0, 4};
  memcpy(img + n, r1, 8); n += 8; memcpy(img + n, r2, 8); n += 8;
  img_len = n;
  YR_STREAM st; st.user_data = NULL; st.read = rd; st.write = NULL;
  YR_ARENA* a = NULL;
  int rc = yr_arena_load_stream(&st, &a);
  printf("yr_arena_load_stream = %d\n", rc);
  if (rc != ERROR_SUCCESS) return 0;
  int bad = 0;
  for (YR_RELOC* r = a->reloc_list_head; r != NULL; r = r->next)
  {
    void* p; memcpy(&p, a->buffers[r->buffer_id].data + r->offset, sizeof p);
    YR_ARENA_REF ref;
    int in_arena = (p == NULL) || yr_arena_ptr_to_ref(a, p, &ref) ||
                   (uint8_t*) p == a->buffers[0].data + a->buffers[0].used;
    printf("slot at offset %u holds %p : %s\n", r->offset, p, in_arena ? "ok" : "NOT an arena address");
    if (!in_arena) bad = 1;
  }
  return bad;
}
