#!/bin/sh
# D6 (C12): compile-time overflow check of '*' calls llabs(INT64_MIN) (undefined) and then
# accepts an overflowing constant product: `(-9223372036854775807 - 1) * 2` is folded to 0
# instead of being rejected with "integer overflow" like every other overflowing product.
Y=${1:-/repo}; T=$(mktemp -d)
echo 'rule r { condition: (-9223372036854775807 - 1) * 2 == 0 }' > $T/a.yar
echo 'rule r { condition: 4611686018427387904 * 4 == 0 }' > $T/b.yar
$Y/yarac $T/a.yar $T/o.yarc >$T/a.out 2>&1; A=$?
$Y/yarac $T/b.yar $T/o.yarc >$T/b.out 2>&1; B=$?
grep -q "integer overflow" $T/b.out || { echo "control failed: 2^62*4 not rejected"; rm -rf $T; exit 2; }
if [ $A -eq 0 ]; then echo "D6: INT64_MIN * 2 accepted at compile time (overflow check skipped)"; rm -rf $T; exit 1; fi
rm -rf $T; exit 0
