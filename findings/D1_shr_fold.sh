#!/bin/sh
# D1 (C12): `>>` folded with `<<` at compile time: `$a at (8 >> 1)` must behave like `$a at 4`.
# usage: D1_shr_fold.sh <dir with yara binary>   exit 0 = correct, 1 = defect present
Y=${1:-/repo}; T=$(mktemp -d)
printf 'xxxxabcd' > $T/f
echo 'rule r { strings: $a = "abcd" condition: $a at (8 >> 1) }' > $T/r.yar
echo 'rule r { strings: $a = "abcd" condition: $a at 4 }' > $T/l.yar
A=$($Y/yara $T/r.yar $T/f | wc -l); B=$($Y/yara $T/l.yar $T/f | wc -l); rm -rf $T
[ "$A" = "$B" ] && [ "$B" = 1 ] && exit 0; echo "D1: '\$a at (8 >> 1)' matches=$A, '\$a at 4' matches=$B"; exit 1
