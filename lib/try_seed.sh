#!/bin/bash
# usage: try_seed.sh <seed-dir-name> <tier> <property>...   -- applies the seeded patch to /repo, runs the checks, restores /repo
S=/verif/seeded/$1; TIER=$2; shift 2
cd /repo && git diff --quiet || { echo "/repo has uncommitted changes - refusing"; exit 9; }
git -C /repo apply $S/patch.diff || { echo "patch does not apply"; exit 9; }
for p in "$@"; do (cd /verif && ./check $p $TIER 2>&1 | grep -E "VIOLATION|UNDECIDED|KNOWN|failed obligation|^C[0-9]+ " | cut -c1-400 | head -12; ); done
git -C /repo checkout -- . 
git -C /repo status --short | head -3
