#!/bin/bash
# usage: run_all.sh quick|thorough [ids...]  -- runs the registered checks sequentially, prints one line each
TIER=${1:-quick}; shift
IDS=${@:-$(python3 -c "import json;print(' '.join(c['property_id'] for c in json.load(open('/verif/MANIFEST.json'))['checks']))")}
cd /verif
for p in $IDS; do s=$(date +%s); ./check $p $TIER > /tmp/yv_last_$p.log 2>&1; rc=$?; e=$(date +%s); echo "$p $TIER rc=$rc $((e-s))s $(tail -1 /tmp/yv_last_$p.log | cut -c1-150)"; done
