#!/usr/bin/env python3
"""Runner for the CBMC contract checks of /verif.

  check <Cxx> quick|thorough      decide one property
  check target <target-id>        run one target verbosely (development aid)
  check replay <replay.json>      re-run a recorded counterexample natively
  check list                      list targets per property

Exit codes: 0 property held on every obligation; 1 VIOLATION (a CBMC FAILURE
of an obligation of a registered target); 2 UNDECIDED (time-out, solver
unknown, harness no longer compiles, extraction broke, a vacuity control did
not fire).  Undecided is never reported as a violation.
"""
import concurrent.futures as cf
import glob
import hashlib
import json
import os
import re
import resource
import shutil
import subprocess
import sys
import tempfile
import time

VERIF = os.path.dirname(os.path.dirname(os.path.abspath(__file__)))
REPO = os.environ.get("VERIF_REPO", "/repo")
GUARD = "YARA_VERIF"

# the project's own configuration defines (Makefile: DEFS + CFLAGS) that matter
# for the code under proof, plus the hook guard
BASE_DEFS = [
    "-D" + GUARD, "-D_GNU_SOURCE", "-DHAVE_STDBOOL_H=1", "-DHAVE_MEMMEM=1",
    "-DHAVE_TIMEGM=1", "-DHAVE_CLOCK_GETTIME=1", "-DHAVE_LIBCRYPTO=1",
    "-DUSE_LINUX_PROC", "-DDOTNET_MODULE", "-DHASH_MODULE", "-DBUCKETS_128=1",
    "-DCHECKSUM_1B=1", "-DHAVE_SCAN_PROC_IMPL=1",
]
INCLUDES = ["-I" + VERIF + "/include", "-I" + VERIF + "/specs",
            "-I" + VERIF + "/stubs",
            "-I" + REPO + "/libyara/include", "-I" + REPO + "/libyara",
            "-I" + REPO]

SAFETY_FLAGS = {
    # memory safety + contract obligations; signed overflow / shift UB not
    # flagged (the code base relies on two's complement wrap-around)
    "mem": ["--bounds-check", "--pointer-check", "--no-signed-overflow-check",
            "--no-undefined-shift-check"],
    # memory safety + arithmetic that traps on the shipped platform
    "trap": ["--bounds-check", "--pointer-check", "--signed-overflow-check",
             "--div-by-zero-check", "--no-undefined-shift-check"],
    "arith": ["--bounds-check", "--pointer-check", "--pointer-overflow-check",
              "--conversion-check", "--signed-overflow-check",
              "--div-by-zero-check", "--undefined-shift-check"],
    "arith_u": ["--bounds-check", "--pointer-check", "--pointer-overflow-check",
                "--conversion-check", "--signed-overflow-check",
                "--unsigned-overflow-check", "--div-by-zero-check",
                "--undefined-shift-check"],
    "none": ["--no-bounds-check", "--no-pointer-check",
             "--no-div-by-zero-check", "--no-signed-overflow-check",
             "--no-undefined-shift-check", "--no-pointer-primitive-check"],
}

BAD_LOG = re.compile(r"ignoring forall|ignoring exists|Parse Error|"
                     r"SMT2 solver returned error|error running SMT2 solver")

MEM_LIMIT = int(os.environ.get("VERIF_MEM_GB", "12")) << 30


def load_registry():
    reg = {"targets": [], "properties": {}}
    for f in sorted(glob.glob(VERIF + "/specs/targets/*.json")):
        d = json.load(open(f))
        for t in d.get("targets", []):
            t["_file"] = f
            reg["targets"].append(t)
        for k, v in d.get("properties", {}).items():
            reg["properties"].setdefault(k, {}).update(v)
    ids = [t["id"] for t in reg["targets"]]
    dup = {i for i in ids if ids.count(i) > 1}
    if dup:
        raise SystemExit("duplicate target ids: %s" % dup)
    return reg


def property_level(reg, pid):
    """'proof' iff some target of the property (any tier) is on an unbounded
    (U) or complete (C) contract route; properties decided only by bounded /
    micro-program stand-ins are reported as 'other'."""
    pinfo = reg["properties"].get(pid, {})
    if "level" in pinfo:
        return pinfo["level"]
    routes = {t.get("route") for t in reg["targets"] if pid in t["properties"]}
    return "proof" if routes & {"U", "C", "P"} else "other"


def load_known():
    known, fixed = [], []
    p = VERIF + "/known_findings.txt"
    if os.path.exists(p):
        for line in open(p):
            line = line.strip()
            if line.startswith("known:"):
                m = re.match(r"known:\s+property=(\S+)\s+target=(\S+)\s+"
                             r"obligation=(\S+)\s+(.*)", line)
                if m:
                    known.append(dict(property=m.group(1), target=m.group(2),
                                      obligation=m.group(3), what=m.group(4)))
            elif line.startswith("fixed:"):
                fixed.append(line)
    return known, fixed


def known_match(known, pid_list, tid, r_name, r_desc):
    """does a failed obligation correspond to a listed known finding?
    the regex may match the obligation name or its description text"""
    for k in known:
        if k["target"] == tid and k["property"] in pid_list and (
                re.fullmatch(k["obligation"], r_name) or
                re.fullmatch(k["obligation"], r_desc or "")):
            return k
    return None


def _limits():
    resource.setrlimit(resource.RLIMIT_AS, (MEM_LIMIT, MEM_LIMIT))
    os.setsid()


def sh(cmd, timeout, cwd=None, env=None, limit=True):
    """run a command in its own process group; on time-out the whole group is
    killed (cbmc spawns the SMT solver as a child process)."""
    import signal
    t0 = time.time()
    p = subprocess.Popen(cmd, stdout=subprocess.PIPE, stderr=subprocess.PIPE,
                         cwd=cwd, env=env,
                         preexec_fn=_limits if limit else os.setsid)
    try:
        out, err = p.communicate(timeout=timeout)
        return p.returncode, out.decode("utf-8", "replace"), \
            err.decode("utf-8", "replace"), time.time() - t0
    except subprocess.TimeoutExpired:
        try:
            os.killpg(p.pid, signal.SIGKILL)
        except OSError:
            pass
        try:
            out, err = p.communicate(timeout=10)
        except Exception:
            out, err = b"", b""
        return -999, out.decode("utf-8", "replace"), \
            "TIMEOUT after %ss" % timeout, time.time() - t0


class Undecided(Exception):
    pass


def xsrc(s):
    """extra source of a target: real repo file ({repo}/...) or /verif file"""
    if s.startswith("{repo}/"):
        return REPO + s[len("{repo}"):]
    return VERIF + "/" + s


def pre_steps(t, wd):
    """Optional mechanical extraction step (bison actions, flex user code)."""
    for step in t.get("pre", []):
        cmd = [c.replace("{wd}", wd).replace("{verif}", VERIF)
               .replace("{repo}", REPO) for c in step]
        rc, out, err, _ = sh(cmd, 300, cwd=wd)
        if rc != 0:
            raise Undecided("extraction step failed: %s\n%s%s" %
                            (" ".join(cmd), out[-2000:], err[-2000:]))


def build_goto(t, wd, variant_defs, mode_defs, tag):
    """goto-cc (+ goto-instrument for contract mode). Returns (binary, cmds)."""
    cmds = []
    src = VERIF + "/harness/" + t["harness"]
    gb = os.path.join(wd, tag + ".gb")
    cmd = (["goto-cc"] + BASE_DEFS + INCLUDES + ["-I" + wd] +
           ["-D" + d for d in t.get("defines", [])] + mode_defs +
           variant_defs + ["--function", t.get("entry", "harness"), src] +
           [xsrc(s) for s in t.get("extra_sources", [])] +
           ["-o", gb])
    cmds.append(cmd)
    rc, out, err, _ = sh(cmd, 300)
    if rc != 0:
        raise Undecided("goto-cc failed (harness no longer compiles against "
                        "the tree):\n" + (out + err)[-3000:])
    if t.get("gi_flags") and not (t["mode"] == "dfcc" and
                                  "VMODE_CONTRACT" in " ".join(mode_defs)):
        # plain mode with a goto-instrument pass (e.g. --replace-calls f:stub)
        gi = os.path.join(wd, tag + ".gi.gb")
        cmd = ["goto-instrument"] + t["gi_flags"] + [gb, gi]
        cmds.append(cmd)
        rc, out, err, _ = sh(cmd, 600)
        if rc != 0:
            raise Undecided("goto-instrument failed:\n" + (out + err)[-3000:])
        gb = gi
    if t["mode"] == "dfcc" and "VMODE_CONTRACT" in " ".join(mode_defs):
        gi = os.path.join(wd, tag + ".i.gb")
        cmd = ["goto-instrument", "--dfcc", t.get("entry", "harness")]
        for f in t.get("enforce", []):
            cmd += ["--enforce-contract", f]
        for f in t.get("replace", []):
            cmd += ["--replace-call-with-contract", f]
        if t.get("loop_contracts"):
            cmd += ["--apply-loop-contracts"]
        cmd += [gb, gi]
        cmds.append(cmd)
        rc, out, err, _ = sh(cmd, 600)
        if rc != 0:
            raise Undecided("goto-instrument --dfcc failed:\n" +
                            (out + err)[-3000:])
        gb = gi
    return gb, cmds


def cbmc_cmd(t, gb, cfg, extra=()):
    cmd = ["cbmc", gb, "--json-ui"]
    cmd += SAFETY_FLAGS[cfg.get("checks", t.get("checks", "mem"))]
    if cfg.get("backend", t.get("backend", "sat")) == "cvc5":
        cmd += ["--cvc5"]
    elif cfg.get("backend", t.get("backend", "sat")) == "z3":
        cmd += ["--z3"]
    uw = cfg.get("unwind", t.get("unwind"))
    if uw:
        cmd += ["--unwind", str(uw), "--unwinding-assertions"]
    for k, v in (cfg.get("unwindset", t.get("unwindset")) or {}).items():
        cmd += ["--unwindset", "%s:%s" % (k, v)]
    if cfg.get("paths", t.get("paths")):
        cmd += ["--paths", "lifo"]
    ob = cfg.get("object_bits", t.get("object_bits"))
    if ob:
        cmd += ["--object-bits", str(ob)]
    cmd += cfg.get("cbmc_flags", t.get("cbmc_flags", []))
    cmd += list(extra)
    return cmd


def parse_cbmc_json(out):
    """-> (results list, status string, messages text)."""
    try:
        data = json.loads(out)
    except Exception:
        # truncated output (time-out / crash): try to salvage nothing
        return None, None, out[-3000:]
    results, status, msgs = [], None, []
    for m in data:
        if "result" in m:
            results = m["result"]
        if "cProverStatus" in m:
            status = m["cProverStatus"]
        if "messageText" in m:
            msgs.append(m["messageText"])
    return results, status, "\n".join(msgs)


def run_cbmc(t, gb, cfg, timeout, extra=(), allow_unknown=False):
    cmd = cbmc_cmd(t, gb, cfg, extra)
    rc, out, err, secs = sh(cmd, timeout)
    if rc == -999:
        raise Undecided("cbmc time-out after %ds" % timeout)
    results, status, msgs = parse_cbmc_json(out)
    if results is None or status is None:
        raise Undecided("cbmc gave no result (rc=%s): %s %s" %
                        (rc, msgs[-1500:], err[-1500:]))
    if BAD_LOG.search(msgs) or BAD_LOG.search(err):
        raise Undecided("solver/quantifier problem in log: " +
                        (BAD_LOG.search(msgs) or BAD_LOG.search(err)).group(0))
    for r in results:
        if r["status"] not in ("SUCCESS", "FAILURE") and not allow_unknown:
            raise Undecided("obligation %s has status %s" %
                            (r["property"], r["status"]))
    m = re.search(r"Runtime (?:decision procedure|Solver): ([0-9.]+)s", msgs)
    solver = sum(float(x) for x in
                 re.findall(r"Runtime (?:decision procedure|Solver): "
                            r"([0-9.]+)s", msgs))
    return dict(cmd=cmd, results=results, status=status, wall=secs,
                solver=solver, msgs=msgs)


def oblig_name(tid, r):
    return "%s/%s" % (tid, r["property"])


def is_library_obligation(r):
    p = r["property"]
    return p.startswith("__CPROVER_contracts_") or p.startswith("malloc.") \
        or p.startswith("free.") or p.startswith("calloc.") or \
        p.startswith("realloc.") or p.startswith("memcpy.") or \
        p.startswith("memcmp.") or p.startswith("memset.") or \
        p.startswith("strlen.") or p.startswith("strcmp.") or \
        p.startswith("memmove.")


def extract_witness(trace, t):
    """first assignment to each declared input of the plain harness."""
    src = open(VERIF + "/harness/" + t["harness"]).read()
    names = set(re.findall(r"V_IN(?:_ARR)?\(\s*[\w\s\*]+?,\s*(\w+)\s*[,)]",
                           src))
    entry = t.get("entry", "harness")
    seen, lines = set(), []

    def put(key, val):
        if key in seen:
            return
        seen.add(key)
        if val is None:
            return
        lines.append("%s=%s" % (key, val))

    def scalar(v):
        if v is None:
            return None
        if "binary" in v:
            return str(int(v["binary"], 2))
        d = v.get("data")
        if isinstance(d, str):
            d = d.rstrip("ulUL")
            try:
                return str(int(d))
            except ValueError:
                return None
        return None

    for st in trace:
        if st.get("stepType") != "assignment":
            continue
        if st.get("sourceLocation", {}).get("function") != entry:
            continue
        lhs = st.get("lhs") or ""
        m = re.match(r"^(\w+)(?:\[(\d+)[lu]*\])?$", lhs)
        if not m or m.group(1) not in names:
            continue
        v = st.get("value") or {}
        if m.group(2) is not None:
            put("%s[%s]" % (m.group(1), m.group(2)), scalar(v))
        elif v.get("name") == "array" or "elements" in v:
            for e in v.get("elements", []):
                put("%s[%d]" % (m.group(1), e["index"]), scalar(e["value"]))
        else:
            put(m.group(1), scalar(v))
    return lines


NATIVE_LIB_SRCS = None


def native_lib(wd):
    """Compile libyara from the CURRENT working tree into a scratch archive
    (only needed when a counterexample is replayed)."""
    lib = os.path.join(wd, "libyara_native.a")
    if os.path.exists(lib):
        return lib
    srcs = [s for s in glob.glob(REPO + "/libyara/*.c")] + \
        glob.glob(REPO + "/libyara/proc/linux.c") + \
        glob.glob(REPO + "/libyara/tlshc/*.c") + \
        [REPO + "/libyara/modules/%s" % m for m in (
            "tests/tests.c", "pe/pe.c", "pe/pe_utils.c", "elf/elf.c",
            "math/math.c", "time/time.c", "console/console.c",
            "string/string.c", "hash/hash.c", "dotnet/dotnet.c",
            "pe/authenticode-parser/authenticode.c",
            "pe/authenticode-parser/certificate.c",
            "pe/authenticode-parser/helper.c",
            "pe/authenticode-parser/countersignature.c",
            "pe/authenticode-parser/structs.c")]
    objdir = os.path.join(wd, "nobj")
    os.makedirs(objdir, exist_ok=True)
    defs = [d for d in BASE_DEFS if d != "-D" + GUARD]

    def cc(s):
        o = os.path.join(objdir, hashlib.md5(s.encode()).hexdigest()[:8] +
                         "_" + os.path.basename(s)[:-2] + ".o")
        rc, out, err, _ = sh(["gcc", "-g", "-O0", "-w", "-fPIC"] + defs +
                             INCLUDES[3:] + ["-c", s, "-o", o], 300)
        return o if rc == 0 else None
    with cf.ThreadPoolExecutor(16) as ex:
        objs = [o for o in ex.map(cc, srcs) if o]
    sh(["ar", "rcs", lib] + objs, 120)
    return lib


def native_replay(t, wd, witness_lines, mode_defs, variant_defs=()):
    """compile the harness natively against the real code and run it."""
    wfile = os.path.join(wd, "witness.txt")
    open(wfile, "w").write("\n".join(witness_lines) + "\n")
    exe = os.path.join(wd, "replay.exe")
    src = VERIF + "/harness/" + t["harness"]
    lib = native_lib(wd)
    defs = [d for d in BASE_DEFS if d != "-D" + GUARD]
    cmd = (["gcc", "-g", "-O0", "-w", "-fsanitize=address,undefined",
            "-fno-sanitize-recover=undefined", "-DVNATIVE"] + defs +
           INCLUDES + ["-I" + wd] +
           ["-D" + d for d in t.get("defines", [])] + list(mode_defs) +
           list(variant_defs) + [src] +
           [xsrc(s) for s in t.get("extra_sources", [])] +
           # harness stubs come first on the link line and win over the
           # library's definitions of the same functions
           ["-Wl,--allow-multiple-definition", lib, "-lcrypto", "-lm",
            "-lpthread", "-o", exe])
    rc, out, err, _ = sh(cmd, 300)
    if rc != 0:
        return dict(built=False, log=(out + err)[-3000:], cmd=cmd)
    env = dict(os.environ, ASAN_OPTIONS="detect_leaks=0:exitcode=1",
               UBSAN_OPTIONS="halt_on_error=1:exitcode=1")
    rc, out, err, _ = sh([exe, wfile], 60, env=env, limit=False)
    reproduced = ("REPLAY: VIOLATED" in out or
                  "ERROR: AddressSanitizer:" in err or
                  "runtime error:" in err or
                  "Assertion `" in err)
    return dict(built=True, rc=rc, out=out[-3000:], err=err[-3000:], cmd=cmd,
                reproduced=reproduced)


def replay_failure(t, wd, failed, tier):
    """failed: list of result records with FAILURE. Returns replay info."""
    info = dict(witness=None, native=None, confirmed=False, note="")
    wcfg = t.get("witness")
    if t["mode"] == "plain":
        wcfg = wcfg or {}
        mode_defs = ["-DVMODE_PLAIN"]
    elif wcfg is None:
        info["note"] = "no witness harness registered for this target"
        return info
    else:
        mode_defs = ["-DVMODE_PLAIN"]
    if not t.get("native", True) and not wcfg.get("native", True):
        info["note"] = "target has no native replay (harness uses CBMC-only stubs)"
    try:
        wt = dict(t)
        wt["mode"] = "plain"
        wdefs = ["-D" + d for d in wcfg.get("defines", [])]
        gb, _ = build_goto(wt, wd, wdefs, mode_defs, "wit")
        cfg = dict(wcfg)
        cfg.setdefault("backend", "sat")
        cfg.setdefault("unwind", wcfg.get("unwind", t.get("unwind", 20)))
        res = run_cbmc(wt, gb, cfg, wcfg.get("timeout", 600),
                       extra=["--trace"], allow_unknown=True)
    except Undecided as e:
        info["note"] = "witness search undecided: %s" % str(e)[:400]
        return info
    trace = None
    for r in res["results"]:
        if r["status"] == "FAILURE" and r.get("trace"):
            trace = r["trace"]
            info["witness_obligation"] = r["property"] + ": " + \
                r.get("description", "")
            break
    if trace is None:
        info["note"] = ("bounded witness harness found no failing input "
                        "within its bound")
        return info
    lines = extract_witness(trace, t)
    info["witness"] = lines
    if not t.get("native", True):
        info["note"] = ("counterexample found by the plain harness on the real "
                        "code under CBMC; harness has no native build")
        info["confirmed"] = True
        info["confirmed_by"] = "cbmc-plain-harness-on-real-code"
        return info
    nat = native_replay(t, wd, lines, mode_defs, wdefs)
    info["native"] = nat
    if nat.get("built") and nat.get("reproduced"):
        info["confirmed"] = True
        info["confirmed_by"] = "native gcc+ASan/UBSan build of the real code"
    elif nat.get("built"):
        info["note"] = "native run did not reproduce (rc=%s)" % nat.get("rc")
    else:
        info["note"] = "native build failed"
    return info


def run_variant(t, tier, neg=None, keep=False, sweep=None):
    """One CBMC run of a target: the proof itself (neg is None) or one
    must-fail control (-DVNEG=k)."""
    tid = t["id"]
    wd = tempfile.mkdtemp(prefix="yv_" + tid.replace("/", "_") + "_")
    out = dict(id=tid, neg=neg, status="ok", obligations=[], failures=[],
               cmds=[], wall=0.0, solver=0.0, undecided=None)
    t0 = time.time()
    try:
        pre_steps(t, wd)
        mode_defs = ["-DVMODE_CONTRACT"] if t["mode"] == "dfcc" \
            else ["-DVMODE_PLAIN"]
        vdefs = [] if neg is None else ["-DVNEG=%d" % neg]
        if sweep is not None:
            vdefs.append("-D%s=%s" % (t["sweep"]["define"], sweep))
            tid = "%s[%s=%s]" % (t["id"], t["sweep"]["define"], sweep)
            out["id"] = tid
        gb, cmds = build_goto(t, wd, vdefs, mode_defs,
                              "main" if neg is None else "neg%d" % neg)
        if neg is not None and t.get("backend", "sat") == "sat":
            # a must-fail control only has to show ONE failing obligation
            cmd = cbmc_cmd(t, gb, {}, ["--stop-on-fail"])
            rc, so, se, _ = sh(cmd, t.get("timeout", 900))
            if rc == -999:
                raise Undecided("cbmc time-out after %ds" % t.get("timeout", 900))
            if '"cProverStatus": "failure"' in so:
                out["fired"] = "stop-on-fail"
                return out
            if '"cProverStatus": "success"' in so:
                raise Undecided("must-fail control VNEG=%d verified: the "
                                "target is vacuous or insensitive" % neg)
            raise Undecided("cbmc gave no result for control VNEG=%d: %s" %
                            (neg, (so + se)[-600:]))
        res = run_cbmc(t, gb, {}, t.get("timeout", 900), allow_unknown=True)
        out["cmds"] = [" ".join(c) for c in cmds] + [" ".join(res["cmd"])]
        out["solver"] = res["solver"]
        nres = res["results"]
        if not nres:
            raise Undecided("zero obligations generated")
        ign = [re.compile(x) for x in t.get("ignore_obligations", [])]
        for r in nres:
            if r["status"] != "SUCCESS" and any(
                    g.search(r.get("description", "")) for g in ign):
                r["status"] = "IGNORED"
        if neg is not None:
            nres = [r for r in nres if r["status"] != "IGNORED"]
            fired = [r for r in nres if r["status"] != "SUCCESS" and
                     not is_library_obligation(r)]
            if not fired:
                raise Undecided("must-fail control VNEG=%d verified: the "
                                "target is vacuous or insensitive" % neg)
            out["fired"] = fired[0]["property"] + "=" + fired[0]["status"]
            return out
        for r in nres:
            out["obligations"].append(dict(
                name=oblig_name(tid, r), status=r["status"],
                description=r.get("description", ""),
                line=r.get("sourceLocation", {}).get("line"),
                file=r.get("sourceLocation", {}).get("file"),
                library=is_library_obligation(r)))
        names = {r["property"] for r in nres}
        for req in t.get("expect_obligations", []):
            if not any(re.fullmatch(req, n) for n in names):
                raise Undecided("registered obligation %s not generated "
                                "(function renamed or removed?)" % req)
        if t.get("loop_contracts"):
            n = len([x for x in names if "loop_invariant_step" in x])
            if n != t.get("expect_loops", n) or n == 0:
                raise Undecided("expected %s loop_invariant_step obligations,"
                                " found %d (loop contract dropped?)" %
                                (t.get("expect_loops"), n))
        failed = [r for r in nres if r["status"] == "FAILURE"]
        # an unwinding assertion that fails means "the bound of this run was
        # too small", not "the property is violated": undecided unless some
        # other obligation fails as well
        uw = [r for r in failed if re.search(r"\.unwind\.\d+$", r["property"])]
        # ... except for loops registered under "termination_bounds": their
        # unwind limit IS the documented maximum trip count + 1, so the
        # unwinding assertion is the obligation "the loop terminates within
        # its bound" (stand-in for a decreases clause on generated code)
        tb = [re.compile(x) for x in t.get("termination_bounds", [])]
        for r in uw:
            if any(g.fullmatch(r["property"]) for g in tb):
                r["description"] = ("T.loop_terminates_within_its_maximum_trip_count (" +
                                    r.get("description", "") + ")")
        uw = [r for r in uw if not any(g.fullmatch(r["property"]) for g in tb)]
        if uw and len(uw) == len(failed):
            raise Undecided("unwinding assertion %s failed: loop bound of the "
                            "harness exceeded (%s)" % (uw[0]["property"],
                                                       uw[0].get("description")))
        failed = [r for r in failed if r not in uw]
        if uw:
            kn, _ = load_known()
            if all(known_match(kn, t["properties"], t["id"], r["property"],
                               r.get("description")) for r in failed):
                # nothing but listed known findings fails besides the bound:
                # the run is incomplete, not a verdict
                raise Undecided("unwinding assertion %s failed: loop bound of "
                                "the harness exceeded" % uw[0]["property"])
        unknown = [r for r in nres if r["status"] not in ("SUCCESS", "FAILURE", "IGNORED")]
        known, _ = load_known()
        if failed and all(known_match(known, t["properties"], t["id"],
                                      r["property"], r.get("description"))
                          for r in failed) and not unknown:
            # only listed known findings fail: no trace / witness search
            out["status"] = "violation"
            out["failures"] = [dict(name=oblig_name(tid, r), status=r["status"],
                                    description=r.get("description", ""),
                                    line=r.get("sourceLocation", {}).get("line"),
                                    file=r.get("sourceLocation", {}).get("file"))
                               for r in failed]
            out["replay"] = dict(note="known finding, not replayed")
            return out
        if failed and unknown and all(known_match(
                known, t["properties"], t["id"], r["property"],
                r.get("description")) for r in failed):
            raise Undecided("only known findings fail but %d obligations have "
                            "status UNKNOWN (first: %s)" %
                            (len(unknown), unknown[0]["property"]))
        if failed or unknown:
            bad = failed or unknown
            bad = sorted(bad, key=lambda r: (
                is_library_obligation(r),
                not re.search(r"postcondition|assertion|precondition",
                              r["property"])))
            out["failures"] = [dict(name=oblig_name(tid, r),
                                    status=r["status"],
                                    description=r.get("description", ""),
                                    line=r.get("sourceLocation", {}).get("line"),
                                    file=r.get("sourceLocation", {}).get("file"))
                               for r in bad]
            if failed:
                try:
                    tr = run_cbmc(t, gb, {}, t.get("timeout", 900),
                                  extra=["--trace", "--property",
                                         failed[0]["property"]],
                                  allow_unknown=True)
                    steps = []
                    for r in tr["results"]:
                        if r["status"] == "FAILURE":
                            for st in r.get("trace", []):
                                if st.get("stepType") == "assignment" and \
                                        not st.get("hidden") and \
                                        not str(st.get("lhs", "")).startswith("__CPROVER"):
                                    v = st.get("value", {})
                                    steps.append("%s:%s %s = %s" % (
                                        st.get("sourceLocation", {}).get("function"),
                                        st.get("sourceLocation", {}).get("line"),
                                        st.get("lhs"), v.get("data", v.get("name"))))
                    out["cbmc_trace_excerpt"] = steps[-120:]
                except Undecided:
                    pass
            tt = t
            if sweep is not None:
                tt = dict(t)
                tt["defines"] = t.get("defines", []) + [
                    "%s=%s" % (t["sweep"]["define"], sweep)]
            out["replay"] = replay_failure(tt, wd, bad, tier)
            out["replay_defines"] = tt.get("defines", [])
            if failed:
                out["status"] = "violation"
                if unknown:
                    out["unknown_obligations"] = [r["property"] for r in unknown][:40]
            elif out["replay"].get("confirmed"):
                # solver said unknown (typical for a refuted quantified
                # obligation on cvc5); the bounded witness harness found a
                # concrete failing input on the real code
                out["status"] = "violation"
            else:
                out["status"] = "undecided"
                out["undecided"] = ("solver status %s for %s and the bounded "
                                    "witness harness found no failing input" %
                                    (unknown[0]["status"], unknown[0]["property"]))
    except Undecided as e:
        out["status"] = "undecided"
        out["undecided"] = str(e)
    finally:
        out["wall"] = time.time() - t0
        if not keep:
            shutil.rmtree(wd, ignore_errors=True)
        else:
            out["workdir"] = wd
    return out


def run_targets(targets, tier, jobs=16, keep=False):
    """runs proof + must-fail controls of all targets in parallel; returns
    one aggregated record per target (same order as targets). A target with a
    "sweep" runs its proof once per value of the swept define (exhaustive
    enumeration of a small discrete parameter, each run symbolic in the rest)."""
    work = []
    for t in targets:
        negs = t.get("negs", [])
        if tier == "quick" and t.get("quick_negs") is not None:
            negs = t["quick_negs"]
        sw = t.get("sweep")
        vals = [None]
        if sw:
            if "values" in sw:
                vals = list(sw["values"])
                if tier == "quick" and sw.get("quick_values"):
                    vals = list(sw["quick_values"])
            else:
                vals = list(range(sw["from"], sw["to"] + 1))
        for v in vals:
            work.append((t, None, v))
        for k in negs:
            work.append((t, k, sw["neg_value"] if sw else None))
    work.sort(key=lambda w: -w[0].get("cost", 1))
    with cf.ThreadPoolExecutor(jobs) as ex:
        res = list(ex.map(lambda w: run_variant(w[0], tier, w[1], keep, w[2]),
                          work))
    agg = []
    for t in targets:
        mains = [r for (w, r) in zip(work, res) if w[0] is t and w[1] is None]
        negs = [r for (w, r) in zip(work, res) if w[0] is t and w[1] is not None]
        out = dict(mains[0])
        out["id"] = t["id"]
        if len(mains) > 1:
            out["obligations"] = [o for m in mains for o in m["obligations"]]
            out["failures"] = [f for m in mains for f in m["failures"]]
            out["cmds"] = mains[0]["cmds"]
            bad = [m for m in mains if m["status"] == "violation"]
            und = [m for m in mains if m["status"] == "undecided"]
            if bad:
                out["status"] = "violation"
                out["replay"] = bad[0].get("replay")
                out["replay_defines"] = bad[0].get("replay_defines")
                out["cbmc_trace_excerpt"] = bad[0].get("cbmc_trace_excerpt")
                out["failures"] = [f for m in bad for f in m["failures"]]
            elif und:
                out["status"] = "undecided"
                out["undecided"] = "%s: %s" % (und[0]["id"], und[0]["undecided"])
            else:
                out["status"] = "ok"
            out["sweep_runs"] = len(mains)
        out["negs"] = len(negs)
        out["negs_ok"] = sum(1 for n in negs if n["status"] == "ok")
        out["solver"] = sum(m["solver"] for m in mains) + sum(n["solver"] for n in negs)
        out["wall"] = max([m["wall"] for m in mains] + [n["wall"] for n in negs])
        out["route"] = t.get("route")
        out["backend"] = t.get("backend", "sat")
        if out["status"] == "ok":
            badn = [n for n in negs if n["status"] != "ok"]
            if badn:
                out["status"] = "undecided"
                out["undecided"] = "control VNEG=%s: %s" % (
                    badn[0]["neg"], badn[0]["undecided"])
        agg.append(out)
    return agg


def scan_assumptions():
    """mechanical scan of harnesses/stubs for assumption constructs."""
    found = []
    for f in sorted(glob.glob(VERIF + "/harness/*.c") +
                    glob.glob(VERIF + "/stubs/*") +
                    glob.glob(VERIF + "/specs/*.h")):
        n = 0
        for line in open(f, errors="replace"):
            if "__CPROVER_assume" in line or "V_ASSUME" in line:
                n += 1
        if n:
            found.append("%s: %d assume statements (harness input "
                         "constraints / stub contracts)" %
                         (os.path.relpath(f, VERIF), n))
    return found


def check_property(pid, tier):
    reg = load_registry()
    known, fixed = load_known()
    pinfo = reg["properties"].get(pid, {})
    targets = [t for t in reg["targets"] if pid in t["properties"] and
               (tier == "thorough" or t.get("tier", "quick") == "quick")]
    if not targets:
        print("no targets registered for %s" % pid)
        return 2
    seed = int(os.environ.get("VERIF_SEED", "0") or 0)
    if seed:
        import random
        random.Random(seed).shuffle(targets)
    t0 = time.time()
    jobs = int(os.environ.get("VERIF_JOBS", "16"))
    order = targets
    results = run_targets(order, tier, jobs)
    wall = time.time() - t0

    violations, undecided, knowns = [], [], []
    for t, r in zip(order, results):
        if r["status"] == "undecided":
            undecided.append((t, r))
        elif r["status"] == "violation":
            rest = []
            for f in r["failures"]:
                k = known_match(known, [pid], t["id"],
                                f["name"].split("/", 1)[1], f.get("description"))
                if k:
                    knowns.append((k, f))
                else:
                    rest.append(f)
            if rest:
                violations.append((t, r, rest))

    os.makedirs(VERIF + "/evidence", exist_ok=True)
    os.makedirs(VERIF + "/replays", exist_ok=True)
    n_obl = sum(len(r["obligations"]) for r in results)
    n_ok = sum(1 for r in results for o in r["obligations"]
               if o["status"] == "SUCCESS")
    n_ign = sum(1 for r in results for o in r["obligations"]
                if o["status"] == "IGNORED")
    n_obl -= n_ign
    # obligations that belong to a listed known finding are reported separately
    # (coverage.known_findings), they are not part of what this run claims to
    # have discharged
    n_obl -= len(knowns)
    by_route = {}
    for t, r in zip(order, results):
        by_route.setdefault(t.get("route", "?"), []).append(t["id"])
    level = property_level(reg, pid)
    samples = []
    for t, r in zip(order, results):
        prim = [o for o in r["obligations"] if not o["library"]]
        for o in prim[:2]:
            samples.append(dict(obligation=o["name"], status=o["status"],
                                clause=o["description"], route=t.get("route"),
                                backend=t.get("backend", "sat"),
                                file=o.get("file"), line=o.get("line")))
    trusted = sorted(set(
        ["cbmc 6.11.0 (goto-cc C front end, goto-instrument --dfcc contract "
         "instrumentation, symex, MiniSat / cvc5 1.0 back ends)",
         "machine arithmetic is bit-precise (not treated as mathematical)"] +
        [x for t in targets for x in t.get("trusted", [])] +
        pinfo.get("trusted", [])))
    ev = dict(
        property_id=pid, tier=tier, seed=seed, level=level,
        wall_s=round(wall, 2),
        violations=len(violations),
        coverage=dict(
            obligations=n_obl, discharged=n_ok,
            checker_cmd=" && ".join(results[0]["cmds"]) if results and
            results[0]["cmds"] else "cbmc",
            trusted_base=trusted,
            explanation=pinfo.get("explanation") or (
                "%s is decided for the functions listed under "
                "functions_under_contract by %d CBMC targets (routes: %s); each "
                "target compiles the real source file from /repo into a harness "
                "that states the pre/postconditions taken from the property text, "
                "CBMC discharges every generated obligation and every target's "
                "must-fail controls have to fail. What the targets do not reach "
                "is listed under unverified_surroundings; bounded stand-ins carry "
                "their bound under bounds." % (
                    pid, len(targets),
                    ", ".join("%s x%d" % (k, len(v))
                              for k, v in sorted(by_route.items())))),
            functions_under_contract=sorted(set(
                "%s [route %s, %s]" % (f, t.get("route"), t["id"])
                for t in targets for f in t.get("functions", []))),
            routes={k: sorted(v) for k, v in by_route.items()},
            route_legend={
                "U": "proved, unbounded: dfcc contract + loop contracts",
                "C": "proved, complete: dfcc contract, loops closed by "
                     "unwinding to a code constant with unwinding assertions",
                "B": "bounded stand-in (bound stated per target), not counted "
                     "as proof",
                "M": "interpreter micro-program: fixed instruction skeleton, "
                     "all operand/input values symbolic; bounded in shape",
                "P": "plain pre/post harness on loop-free real code over the "
                     "full input domain: complete, but without the dfcc frame "
                     "check (frame asserted by snapshots of named objects)"},
            bounds={t["id"]: t["bound"] for t in targets if t.get("bound")},
            obligations_by_route={
                k: sum(len(r["obligations"]) for t, r in zip(order, results)
                       if t.get("route") == k) for k in by_route},
            obligations_by_backend={
                b: sum(len(r["obligations"]) for t, r in zip(order, results)
                       if t.get("backend", "sat") == b)
                for b in set(t.get("backend", "sat") for t in targets)},
            ignored_obligations=sorted(set(
                "%s: %s" % (o["name"], o["description"]) for r in results
                for o in r["obligations"] if o["status"] == "IGNORED")),
            primary_obligations=sum(1 for r in results for o in r["obligations"]
                                    if not o["library"]),
            solver_time_s=round(sum(r["solver"] for r in results), 2),
            per_target={r["id"]: dict(wall_s=round(r["wall"], 2),
                                      solver_s=round(r["solver"], 2),
                                      obligations=len(r["obligations"]),
                                      status=r["status"],
                                      must_fail_controls=r["negs"],
                                      must_fail_controls_failed_as_expected=r["negs_ok"])
                        for r in results},
            must_fail_controls=sum(r["negs"] for r in results),
            must_fail_controls_failed_as_expected=sum(r["negs_ok"] for r in results),
            undecided=[dict(target=t["id"], reason=r["undecided"][:500])
                       for t, r in undecided],
            known_findings=[dict(target=k["target"], obligation=f["name"],
                                 what=k["what"]) for k, f in knowns],
            unverified_surroundings=pinfo.get("unverified", []),
            assumption_scan=scan_assumptions(),
            samples=samples[:40],
        ),
        assumptions=trusted + pinfo.get("assumptions", []) +
        sorted(set(a for t in targets for a in t.get("assumptions", []))),
    )
    json.dump(ev, open(VERIF + "/evidence/%s.json" % pid, "w"), indent=1)

    for k, f in knowns:
        print("KNOWN-FINDING: property=%s %s [%s] %s" %
              (pid, f["name"], f["description"], k["what"]))
    rc = 0
    for t, r, rest in violations:
        rp = VERIF + "/replays/%s.%s.json" % (t["id"], int(time.time()))
        rep = r.get("replay", {})
        json.dump(dict(property=pid, target=t["id"], harness=t["harness"],
                       defines=r.get("replay_defines") or t.get("defines", []),
                       witness_defines=(t.get("witness") or {}).get("defines", []),
                       failed_obligations=rest,
                       functions=t.get("functions", []),
                       cbmc_cmds=r["cmds"],
                       cbmc_trace_excerpt=r.get("cbmc_trace_excerpt", []),
                       witness=rep.get("witness"),
                       witness_obligation=rep.get("witness_obligation"),
                       native=rep.get("native"),
                       confirmed=rep.get("confirmed", False),
                       confirmed_by=rep.get("confirmed_by"),
                       note=rep.get("note", "")),
                  open(rp, "w"), indent=1)
        for f in rest[:6]:
            print("  failed obligation %s (%s:%s): %s" %
                  (f["name"], f.get("file"), f.get("line"), f["description"]))
        tail = "" if rep.get("confirmed") else " no-failing-input-found"
        print("VIOLATION property=%s replay=%s%s" % (pid, rp, tail))
        rc = 1
    for t, r in undecided:
        print("UNDECIDED property=%s target=%s reason=%s" %
              (pid, t["id"], r["undecided"].replace("\n", " ")[:600]))
        if rc == 0:
            rc = 2
    print("%s %s: %d targets, %d obligations, %d discharged, %d must-fail "
          "controls fired, %.1fs" %
          (pid, tier, len(targets), n_obl, n_ok,
           sum(r["negs_ok"] for r in results), wall))
    return rc


def cmd_replay(path):
    rep = json.load(open(path))
    reg = load_registry()
    t = [x for x in reg["targets"] if x["id"] == rep["target"]]
    if not t:
        print("unknown target", rep["target"])
        return 2
    t = dict(t[0])
    if rep.get("defines"):
        t["defines"] = rep["defines"]
    print("property %s, target %s" % (rep["property"], rep["target"]))
    for f in rep["failed_obligations"][:8]:
        print("failed obligation: %s [%s] (%s:%s) %s" %
              (f["name"], f.get("status", "FAILURE"), f.get("file"),
               f.get("line"), f["description"]))
    if len(rep["failed_obligations"]) > 8:
        print("... and %d more (see the replay file)" %
              (len(rep["failed_obligations"]) - 8))
    if not rep.get("witness"):
        print("no concrete input recorded (%s)" % rep.get("note"))
        print("\n".join(rep.get("cbmc_trace_excerpt", [])[-40:]))
        return 1
    if not t.get("native", True):
        print("witness (CBMC plain harness on the real code):")
        print("\n".join(rep["witness"]))
        return 1
    wd = tempfile.mkdtemp(prefix="yv_replay_")
    try:
        nat = native_replay(t, wd, rep["witness"], ["-DVMODE_PLAIN"],
                            ["-D" + d for d in rep.get("witness_defines", [])])
        print("witness:\n  " + "\n  ".join(rep["witness"]))
        print(nat.get("out", ""), nat.get("err", "")[-1500:])
        if not nat.get("built"):
            print(nat.get("log"))
            return 2
        print("native exit code", nat["rc"])
        return 1 if nat.get("reproduced") else 0
    finally:
        shutil.rmtree(wd, ignore_errors=True)


def main(argv):
    if len(argv) >= 2 and argv[1] == "replay":
        return cmd_replay(argv[2])
    if len(argv) >= 2 and argv[1] == "list":
        reg = load_registry()
        for t in reg["targets"]:
            print(t["id"], t["properties"], t.get("route"), t.get("tier", "quick"))
        return 0
    if len(argv) >= 3 and argv[1] == "target":
        reg = load_registry()
        rc = 0
        for t in reg["targets"]:
            if re.fullmatch(argv[2], t["id"]):
                r = run_targets([t], argv[3] if len(argv) > 3 and
                                not argv[3].startswith("-") else "thorough",
                                keep="--keep" in argv)[0]
                bad = [o for o in r["obligations"] if o["status"] != "SUCCESS"]
                print(json.dumps(dict(id=r["id"], status=r["status"],
                                      wall=round(r["wall"], 1),
                                      obligations=len(r["obligations"]),
                                      failed=bad[:10], negs=r["negs"],
                                      negs_ok=r["negs_ok"],
                                      undecided=r["undecided"],
                                      replay=r.get("replay"),
                                      workdir=r.get("workdir")), indent=1))
                if r["status"] != "ok":
                    rc = 1
        return rc
    if len(argv) >= 2 and re.fullmatch(r"C\d+", argv[1]):
        tier = argv[2] if len(argv) > 2 else os.environ.get("VERIF_TIER", "quick")
        return check_property(argv[1], tier)
    print(__doc__)
    return 2


if __name__ == "__main__":
    sys.exit(main(sys.argv))
