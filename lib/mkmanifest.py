#!/usr/bin/env python3
"""Regenerates /verif/MANIFEST.json from specs/targets/*.json + the texts below.
A property is claimed iff at least one target is registered for it."""
import glob
import json
import os
import subprocess
import sys
sys.path.insert(0, os.path.dirname(os.path.abspath(__file__)))
import runner

VERIF = os.path.dirname(os.path.dirname(os.path.abspath(__file__)))

NA_FIXED = {
    "C09": "concurrency: CBMC's contract instrumentation (--dfcc) is sequential and has no thread, "
           "ownership or permission reasoning; race freedom / schedule independence cannot be expressed as a "
           "function contract (DESIGN.md section 3, C09)",
    "C18": "multi-threaded command-line tool (semaphore queue, stdout line atomicity, exit status): process-level "
           "and concurrent behaviour, not a sequential function contract (DESIGN.md section 3, C18)",
}

TEXT = {}  # property -> (category, text, note, technique)


def T(pid, cat, text, note, tech):
    TEXT[pid] = (cat, text, note, tech)


COMMON_NOTE = ("Trusted: cbmc 6.11.0 front end, contract instrumentation and back ends (MiniSat, cvc5); "
               "harness preconditions derived from call sites; assumed contracts of stubs listed in the "
               "evidence file's trusted_base. Functions outside the listed targets are unverified surroundings "
               "(listed per property in DESIGN.md section 3 and in the evidence).")

T("C01", "proof",
  "CBMC code contracts on the real libyara functions that decide a text-string candidate: the six compare "
  "functions of scan.c are proved for all buffers and strings (unbounded, loop contracts, cvc5): result = matched "
  "length iff the bytes are there under the variant's semantics, xor key reported exactly. Further targets "
  "(literal-match dispatch, fullword filter, match-list insert, atom extraction) are listed in the evidence with "
  "their route. The property as a whole (automaton never misses a candidate) is not decided; the verified part "
  "and the unverified surroundings are listed.",
  COMMON_NOTE, "CBMC function contracts + loop contracts (goto-instrument --dfcc), cvc5/SAT")

PLACEHOLDER = ("proof",
               "CBMC code contracts (goto-instrument --dfcc) and complete/bounded CBMC harnesses on the real "
               "functions this property's mechanism rests on; see DESIGN.md section 3 and the evidence file "
               "for the functions under contract, routes and unverified surroundings.",
               COMMON_NOTE, "CBMC function contracts (dfcc) on the real C code")


ROUTE_WORDS = [
    ("U", "proved for all inputs with function contracts and in-place loop contracts (unbounded)"),
    ("C", "proved against their function contract with goto-instrument --dfcc (loop-free, or loops closed by "
          "a constant of the code; complete)"),
    ("P", "decided by a loop-free CBMC harness over the full symbolic input domain (complete; frame by snapshots)"),
    ("M", "decided per opcode by interpreter micro-programs through the real yr_execute_code over full-width "
          "symbolic operands (complete for the stated program shapes)"),
    ("B", "bounded stand-ins only (--unwind with unwinding assertions; the bound is in the evidence file; "
          "never counted as proved)"),
]


def auto_text(pid, cat):
    reg = runner.load_registry()["targets"]
    by_route = {}
    for t in reg:
        if pid in t["properties"]:
            for fn in t.get("functions", []) or [t["id"]]:
                by_route.setdefault(t.get("route", "B"), [])
                if fn not in by_route[t["route"]]:
                    by_route[t["route"]].append(fn)
    parts = []
    for r, words in ROUTE_WORDS:
        if r in by_route:
            fns = sorted(set(f.split(":")[-1] for f in by_route[r]))
            parts.append("%s: %s" % (words, ", ".join(fns)))
    text = ("CBMC 6.11 code contracts and contract-style harnesses on the real libyara source (harnesses "
            "#include the .c file from /repo on every run). Functions this property rests on that are " +
            "; ".join(parts) + ". The property as an end-to-end statement over all rules and inputs is NOT "
            "decided: what is decided is that each listed function meets the postcondition derived from the "
            "property text; callers and glue between them are unverified surroundings (evidence file: "
            "trusted_base, assumptions; DESIGN.md A and section 3).")
    if cat != "proof":
        text = "No unbounded or complete target for this property; level is 'other'. " + text
    routes = [r for r, _ in ROUTE_WORDS if r in by_route]
    tech = "CBMC function contracts on the real C code (goto-instrument --dfcc / full-domain harnesses); routes " + \
           "+".join(routes) + "; MiniSat" + (" and cvc5" if pid == "C01" else "")
    return text, tech


def main():
    props = [json.loads(l) for l in open(VERIF + "/properties.jsonl")]
    claimed = set()
    for f in glob.glob(VERIF + "/specs/targets/*.json"):
        for t in json.load(open(f)).get("targets", []):
            claimed.update(t["properties"])
    try:
        commits = subprocess.check_output(
            ["git", "-C", "/repo", "log", "--format=%H %s", "638dd93..HEAD"]).decode().splitlines()
    except Exception:
        commits = []
    hooks = [c.split()[0] for c in commits if not c.split(" ", 1)[1].startswith("fix:")]
    checks, na = [], []
    for p in props:
        pid = p["id"]
        if pid in claimed and pid not in NA_FIXED:
            cat, text, note, tech = TEXT.get(pid, PLACEHOLDER)
            cat = runner.property_level(runner.load_registry(), pid)
            text, tech = auto_text(pid, cat)
            checks.append(dict(
                property_id=pid,
                quick_cmd="./check %s quick" % pid,
                thorough_cmd="./check %s thorough" % pid,
                evidence_file="/verif/evidence/%s.json" % pid,
                replay_cmd_template="./check replay {path}",
                engine="cbmc-contracts",
                level_claimed=dict(category=cat, text=text, design_ref="DESIGN.md section 3, " + pid),
                level_note=note, technique=tech))
        else:
            na.append(dict(property_id=pid, reason=NA_FIXED.get(
                pid, "no contract target built for this property yet (work in progress; nothing is claimed)")))
    m = dict(
        version=1,
        setup_cmd="true",
        hooks=dict(guard="YARA_VERIF",
                   enable="checks compile the real sources with goto-cc -DYARA_VERIF (YR_VERIF_LOOP loop "
                          "contracts become visible to CBMC); nothing is built ahead of time",
                   baseline_off_cmd="make -C /repo check",
                   source_commits=hooks,
                   add_only=True),
        engines=[dict(name="cbmc-contracts", path="/verif/check",
                      serves_properties=sorted(c["property_id"] for c in checks),
                      kind_free_text="contract-based deductive verification of the real C code with CBMC 6.11 "
                                     "(goto-cc, goto-instrument --dfcc, cbmc; MiniSat and cvc5 back ends)")],
        checks=checks,
        not_applicable=na,
        notes="Hooks are add-only loop-contract annotations (YR_VERIF_LOOP) placed between a loop header and its "
              "body; three one-line loops `while (c) i++;` had their body moved to the next line to make room "
              "(token-preserving). Exit 2 = undecided (time-out, solver unknown, harness broke), never reported "
              "as a violation.")
    json.dump(m, open(VERIF + "/MANIFEST.json", "w"), indent=1)
    print("claimed:", sorted(c["property_id"] for c in checks))


if __name__ == "__main__":
    main()
