import sys,json
txt=sys.stdin.read()
dec=json.JSONDecoder(); i=0
while i<len(txt):
    while i<len(txt) and txt[i]!='{': i+=1
    if i>=len(txt): break
    try: o,j=dec.raw_decode(txt[i:])
    except Exception: break
    i+=j
    print(o['id'],o['status'],o['wall'],o['obligations'],o['negs'],o['negs_ok'],[ (f['name'],f['status'],f['line'],f['description'][:110]) for f in o['failed']][:8],(o['undecided'] or '')[-1200:])
