#!/bin/bash
# usage: verify_seed.sh <seed-dir-name> <worktree>   (worktree has the change applied and built)
# confirms: compiles, make check 16/16 with change, demo fails with change, demo passes without
S=/verif/seeded/$1; W=$2
cd $W || exit 9
make -j8 >/dev/null 2>&1 || { echo "$1: BUILD FAILED"; exit 1; }
PASS=$(make check -j8 2>&1 | grep -E "^# PASS:" | awk '{print $3}')
rundemo() {
  if [ -f $S/demo.c ]; then gcc -w $S/demo.c -I libyara/include -L .libs -l:libyara.a -lcrypto -lm -lpthread -o /tmp/wt/demo_$1 2>/dev/null && (cd $W && /tmp/wt/demo_$1 >/tmp/wt/demo_$1.log 2>&1); echo $?
  else (cd $W && bash $S/demo.sh >/tmp/wt/demo_$1.log 2>&1); echo $?; fi
}
RC_CHANGED=$(rundemo $1)
git apply -R $S/patch.diff && make -j8 >/dev/null 2>&1
RC_ORIG=$(rundemo $1)
git apply $S/patch.diff
echo "$1: make_check_pass_with_change=$PASS demo_changed=$RC_CHANGED demo_original=$RC_ORIG"
