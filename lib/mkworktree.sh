#!/bin/sh
# usage: mkworktree.sh <dir>   -- scratch worktree of /repo HEAD, configured and built (outside /repo and /verif)
set -e
D="$1"
git -C /repo worktree add --detach "$D" HEAD >/dev/null 2>&1
cd "$D"
cp -a /repo/configure /repo/Makefile.in /repo/aclocal.m4 /repo/build-aux .
cp -a /repo/m4/*.m4 m4/ 2>/dev/null || true
./configure CFLAGS=" -Wno-error" -q >/dev/null 2>&1
make -j8 >/dev/null 2>&1
echo "built $D"
