/* Harness macros shared by
 *   - CBMC proof harnesses (contract mode and plain mode), and
 *   - the native replay build (gcc -DVNATIVE), which runs the SAME harness text
 *     on the natively compiled real code with inputs taken from a witness file.
 *
 * Inputs of a plain harness are declared with V_IN / V_IN_ARR (integer scalars
 * and arrays of integer scalars only). Under CBMC they are unconstrained; the
 * runner extracts their values from the counterexample trace and writes
 * "name=value" / "name[i]=value" lines into the witness file.
 */
#ifndef VHARNESS_H
#define VHARNESS_H
#include <stddef.h>
#include <stdint.h>

#ifdef VNATIVE
#include <stdio.h>
#include <stdlib.h>
#include <string.h>

static const char* vw_path;

static void vw_get(const char* name, void* dst, size_t elem, size_t count)
{
  memset(dst, 0, elem * count);
  if (vw_path == NULL) return;
  FILE* f = fopen(vw_path, "r");
  if (f == NULL) { perror(vw_path); exit(2); }
  char line[512];
  size_t nl = strlen(name);
  while (fgets(line, sizeof line, f))
  {
    if (strncmp(line, name, nl) != 0) continue;
    const char* p = line + nl;
    size_t idx = 0;
    if (*p == '[') { idx = strtoull(p + 1, (char**) &p, 10); if (*p != ']') continue; p++; }
    if (*p != '=') continue;
    unsigned long long v = strtoull(p + 1, NULL, 0);
    if (idx >= count) continue;
    memcpy((char*) dst + idx * elem, &v, elem); /* little endian host */
  }
  fclose(f);
}

#define V_IN(T, name) T name; vw_get(#name, &name, sizeof(T), 1)
#define V_IN_ARR(T, name, N) T name[N]; vw_get(#name, name, sizeof(T), N)
#define V_ASSUME(c)                                                        \
  do {                                                                     \
    if (!(c)) {                                                            \
      printf("REPLAY: witness does not satisfy precondition: %s\n", #c);   \
      exit(3);                                                             \
    }                                                                      \
  } while (0)
#define V_ASSERT(c, id)                                                    \
  do {                                                                     \
    if (!(c)) {                                                            \
      printf("REPLAY: VIOLATED %s: %s\n", id, #c);                         \
      exit(1);                                                             \
    }                                                                      \
  } while (0)
#define V_COVER(c) ((void) 0)
void harness(void);
int main(int argc, char** argv)
{
  vw_path = argc > 1 ? argv[1] : NULL;
  harness();
  printf("REPLAY: all checks of this harness hold on this input\n");
  return 0;
}

#else /* CBMC */

#define V_IN(T, name) T name
#define V_IN_ARR(T, name, N) T name[N]
#define V_ASSUME(c) __CPROVER_assume(c)
#define V_ASSERT(c, id) __CPROVER_assert(c, id)

#endif

/* Must-fail variants (vacuity / sensitivity controls). The runner compiles the
 * harness once more per k with -DVNEG=k and expects FAILURE.  V_REACH(k) is a
 * reachability control: under -DVNEG=k it asserts false at that point. */
#ifndef VNEG
#define VNEG 0
#endif
#ifdef VNATIVE
#define V_REACH(k) ((void) 0)
#else
#define V_REACH(k) \
  do { if (VNEG == (k)) __CPROVER_assert(0, "reach control " #k); } while (0)
#endif

#endif
