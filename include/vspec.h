/* Spec macros: the same predicate text is used
 *   - as a CBMC code contract clause        (VSPEC_CONTRACT: quantifiers stay symbolic)
 *   - as an executable oracle               (plain CBMC harness and native gcc replay)
 */
#ifndef VSPEC_H
#define VSPEC_H
#include <stddef.h>
#include <stdint.h>

#define IMPLIES(a, b) (!(a) || (b))

#if defined(VSPEC_CONTRACT)
/* inside __CPROVER_requires / __CPROVER_ensures */
#define FORALL(T, v, lo, hi, body) \
  __CPROVER_forall { T v; ((lo) <= v && v < (hi)) ==> (body) }
#define EXISTS(T, v, lo, hi, body) \
  __CPROVER_exists { T v; ((lo) <= v && v < (hi)) && (body) }
#else
/* executable: GNU statement expressions (accepted by goto-cc and gcc) */
#define FORALL(T, v, lo, hi, body)                \
  ({                                              \
    _Bool _r = 1;                                 \
    for (T v = (lo); v < (hi); v++)               \
      if (!(body)) { _r = 0; break; }             \
    _r;                                           \
  })
#define EXISTS(T, v, lo, hi, body)                \
  ({                                              \
    _Bool _r = 0;                                 \
    for (T v = (lo); v < (hi); v++)               \
      if (body) { _r = 1; break; }                \
    _r;                                           \
  })
#endif

#endif
