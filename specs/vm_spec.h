/* Documented run-time semantics of YARA's integer / boolean operators
 * (docs/writingrules.rst: "undefined" values, operator table), written as a
 * pure function.  This one text is the postcondition of
 *   - the VM opcodes of yr_execute_code   (C04, exec_ops harness) and
 *   - the compile-time folding actions of grammar.y (C12, fold harness),
 * so "fold == VM" is the lemma over the two contracts.
 *
 * Undefined is the sentinel 0xFFFABADAFABADAFF.  Arithmetic is 64-bit two's
 * complement (what the shipped binaries compute); everything is evaluated on
 * uint64_t here so that the spec itself has no undefined behaviour.
 */
#ifndef VM_SPEC_H
#define VM_SPEC_H
#include <stdint.h>

#define VS_UNDEF ((int64_t) 0xFFFABADAFABADAFFLL)
#define VS_IS_UNDEF(x) ((int64_t) (x) == VS_UNDEF)

/* operator ids (macros, so that harnesses can select with #if) */
#define VS_ADD 1
#define VS_SUB 2
#define VS_MUL 3
#define VS_DIV 4
#define VS_MOD 5
#define VS_XOR 6
#define VS_BAND 7
#define VS_BOR 8
#define VS_SHL 9
#define VS_SHR 10
#define VS_EQ 11
#define VS_NEQ 12
#define VS_LT 13
#define VS_GT 14
#define VS_LE 15
#define VS_GE 16
#define VS_AND 17
#define VS_OR 18
#define VS_NOT 19
#define VS_BNOT 20
#define VS_MINUS 21
#define VS_DEFINED 22
/* comparisons of floating-point operands (operands are the bit patterns of doubles) */
#define VS_DEQ 23
#define VS_DNEQ 24
#define VS_DLT 25
#define VS_DGT 26
#define VS_DLE 27
#define VS_DGE 28


static inline int64_t vs_asr(int64_t a, unsigned n) /* arithmetic shift, n<64 */
{
  uint64_t u = (uint64_t) a;
  uint64_t r = u >> n;
  if (a < 0 && n > 0) r |= ~(uint64_t) 0 << (64 - n);
  return (int64_t) r;
}

static inline int64_t vs_binop(int op, int64_t a, int64_t b)
{
  /* "and"/"or" treat undefined as false */
  if (op == VS_AND) return (!VS_IS_UNDEF(a) && a != 0) && (!VS_IS_UNDEF(b) && b != 0);
  if (op == VS_OR) return (!VS_IS_UNDEF(a) && a != 0) || (!VS_IS_UNDEF(b) && b != 0);
  /* every other operator yields undefined on an undefined operand */
  if (VS_IS_UNDEF(a) || VS_IS_UNDEF(b)) return VS_UNDEF;
  switch (op)
  {
  case VS_ADD: return (int64_t) ((uint64_t) a + (uint64_t) b);
  case VS_SUB: return (int64_t) ((uint64_t) a - (uint64_t) b);
  case VS_MUL: return (int64_t) ((uint64_t) a * (uint64_t) b);
  case VS_DIV:
    if (b == 0 || (a == INT64_MIN && b == -1)) return VS_UNDEF;
    return a / b;
  case VS_MOD:
    if (b == 0 || (a == INT64_MIN && b == -1)) return VS_UNDEF;
    return a % b;
  case VS_XOR: return a ^ b;
  case VS_BAND: return a & b;
  case VS_BOR: return a | b;
  case VS_SHL:
    if (b < 0) return VS_UNDEF;
    if (b >= 64) return 0;
    return (int64_t) ((uint64_t) a << b);
  case VS_SHR:
    if (b < 0) return VS_UNDEF;
    if (b >= 64) return 0;
    return vs_asr(a, (unsigned) b);
  case VS_EQ: return a == b;
  case VS_NEQ: return a != b;
  case VS_LT: return a < b;
  case VS_GT: return a > b;
  case VS_LE: return a <= b;
  case VS_GE: return a >= b;
  }
  if (op >= VS_DEQ && op <= VS_DGE)
  {
    union { int64_t i; double d; } ua, ub;
    ua.i = a; ub.i = b;
    double x = ua.d, y = ub.d;
    switch (op)
    {
    case VS_DEQ: return x == y;
    case VS_DNEQ: return x != y;
    case VS_DLT: return x < y;
    case VS_DGT: return x > y;
    case VS_DLE: return x <= y;
    case VS_DGE: return x >= y;
    }
  }
  return VS_UNDEF;
}

static inline int64_t vs_unop(int op, int64_t a)
{
  if (op == VS_DEFINED) return !VS_IS_UNDEF(a);
  if (VS_IS_UNDEF(a)) return VS_UNDEF;
  switch (op)
  {
  case VS_NOT: return !a;
  case VS_BNOT: return ~a;
  case VS_MINUS: return (int64_t) (0 - (uint64_t) a);
  }
  return VS_UNDEF;
}

/* a rule's condition value v makes the rule match iff defined and non-zero */
#define VS_TRUTH(v) (!VS_IS_UNDEF(v) && (v) != 0)

#endif
